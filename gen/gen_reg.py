#!/usr/bin/env python3
"""Seeded generator of statically typed dispatch tables (one Rust module per registry).

usage: gen_reg.py <registry> <seed> <out.rs> [--queries N] [--entries N]

Everything emitted is well typed by construction; for every query / entry triple the predicate
is emitted as *data* next to the Rust type so that the oracle never derives it from the types
under test. Output is a pure function of (registry, seed, sizes).
"""
import sys, random, itertools, hashlib, json

REGS = {
    'r0': [],
    'r1': [('Zst', 0)],
    'r6': [('Tiny', 0), ('Word', 1), ('Heap', 2), ('Zst', 3), ('Wide', 4), ('Odd', 5)],
}
REGS['r8'] = REGS['r6'] + [('Word', 6), ('Heap', 7)]
REGS['r10'] = REGS['r8'] + [('Tiny', 8), ('Wide', 9)]
# 9 components: the last component sits alone in the second identifier byte (random-only pool)
REGS['r9'] = REGS['r8'] + [('Heap', 8)]
# 17 components: identifiers of three bytes with one used bit in the last byte; random-only pool
REGS['r17'] = REGS['r10'] + [('Zst', 10), ('Odd', 11), ('Word', 12), ('Heap', 13), ('Tiny', 14), ('Wide', 15), ('Heap', 16)]
for _k, _base in (('p6a', 'r6'), ('p6b', 'r6'), ('p6c', 'r6'), ('p10', 'r10'), ('p1', 'r1'), ('t6', 'r6'), ('t10', 'r10')):
    REGS[_k] = REGS[_base]
PAR_SLICE = {'p6a': (0, 3), 'p6b': (1, 3), 'p6c': (2, 3), 'p10': (0, 1), 'p1': (0, 1)}
HAS_SERIAL = {'Tiny': False, 'Word': True, 'Heap': True, 'Zst': False, 'Wide': True, 'Odd': False}

VK = ['Ref', 'Mut', 'OptRef', 'OptMut']


def bits(mask, n):
    return [i for i in range(n) if mask >> i & 1]


def view_ty(c, k, lt=''):
    l = ("'%s " % lt) if lt else ''
    return {'Ref': '&%sC%d' % (l, c), 'Mut': '&%smut C%d' % (l, c),
            'OptRef': 'Option<&%sC%d>' % (l, c), 'OptMut': 'Option<&%smut C%d>' % (l, c)}[k]


def views_ty(views, id_pos, lt=''):
    items = [view_ty(c, k, lt) for c, k in views]
    if id_pos is not None:
        items.insert(id_pos, 'entity::Identifier')
    return 'Views!(%s)' % ', '.join(items)


def views_data(views):
    return '&[%s]' % ', '.join('(%d, VK::%s)' % (c, k) for c, k in views)


# ---- filters: ('None',) ('Has',c) ('Not',f) ('And',f,g) ('Or',f,g) ('View',c,k) ('Ident',) ('Views',[f..])
def flt_ty(f, lt='static'):
    t = f[0]
    if t == 'None':
        return 'filter::None'
    if t == 'Has':
        return 'filter::Has<C%d>' % f[1]
    if t == 'Not':
        return 'filter::Not<%s>' % flt_ty(f[1], lt)
    if t == 'And':
        return 'filter::And<%s, %s>' % (flt_ty(f[1], lt), flt_ty(f[2], lt))
    if t == 'Or':
        return 'filter::Or<%s, %s>' % (flt_ty(f[1], lt), flt_ty(f[2], lt))
    if t == 'View':
        return view_ty(f[1], f[2], lt)
    if t == 'Ident':
        return 'entity::Identifier'
    if t == 'Views':
        return 'Views!(%s)' % ', '.join(flt_ty(x, lt) for x in f[1])
    raise ValueError(f)


def flt_data(f):
    t = f[0]
    if t == 'None':
        return 'Flt::None'
    if t == 'Has':
        return 'Flt::Has(%d)' % f[1]
    if t == 'Not':
        return 'Flt::Not(&%s)' % flt_data(f[1])
    if t in ('And', 'Or'):
        return 'Flt::%s(&%s, &%s)' % (t, flt_data(f[1]), flt_data(f[2]))
    if t == 'View':
        return 'Flt::View(%d, VK::%s)' % (f[1], f[2])
    if t == 'Ident':
        return 'Flt::Ident'
    if t == 'Views':
        return 'Flt::Views(&[%s])' % ', '.join(flt_data(x) for x in f[1])
    raise ValueError(f)


def flt_comps(f):
    t = f[0]
    if t in ('None', 'Ident'):
        return set()
    if t in ('Has', 'View'):
        return {f[1]}
    if t == 'Not':
        return flt_comps(f[1])
    if t in ('And', 'Or'):
        return flt_comps(f[1]) | flt_comps(f[2])
    if t == 'Views':
        s = set()
        for x in f[1]:
            s |= flt_comps(x)
        return s


def rand_filter(rng, comps, depth, kinds=None):
    """random filter over the given component indices; kinds: comp -> admissible view kinds"""
    vk = (lambda c: rng.choice(kinds[c])) if kinds else (lambda c: rng.choice(VK))
    if not comps:
        return rng.choice([('None',), ('Ident',), ('Not', ('None',))])
    r = rng.random()
    if depth <= 0 or r < 0.35:
        c = rng.choice(comps)
        return rng.choice([('Has', c), ('Has', c), ('None',), ('View', c, vk(c)), ('Ident',)])
    if r < 0.55:
        return ('Not', rand_filter(rng, comps, depth - 1, kinds))
    if r < 0.75:
        return ('And', rand_filter(rng, comps, depth - 1, kinds), rand_filter(rng, comps, depth - 1, kinds))
    if r < 0.92:
        return ('Or', rand_filter(rng, comps, depth - 1, kinds), rand_filter(rng, comps, depth - 1, kinds))
    k = rng.randint(0, min(3, len(comps)))
    cs = rng.sample(comps, k)
    items = [('View', c, vk(c)) for c in cs]
    if rng.random() < 0.3:
        items.insert(rng.randint(0, len(items)), ('Ident',))
    return ('Views', items)


def gen_queries(rng, n, nrand, random_only=False):
    """list of (views, id_pos, filter)"""
    qs = []
    comps = list(range(n))

    def add(views, id_pos, f):
        key = (tuple(views), id_pos, repr(f))
        if key not in seen:
            seen.add(key)
            qs.append((list(views), id_pos, f))
    seen = set()
    add([], None, ('None',))
    add([], 0, ('None',))
    if random_only:
        # seed-derived pools (thorough tier): only the random part
        target = len(qs) + nrand
        tries = 0
        while len(qs) < target and tries < 20000:
            tries += 1
            k = rng.choice([1, 1, 2, 2, 3, 3, 4, 5]) if n >= 5 else rng.randint(0, n)
            cs = rng.sample(comps, min(k, n))
            views = [(c, rng.choice(VK)) for c in cs]
            id_pos = rng.choice([None, None, rng.randint(0, len(views))])
            add(views, id_pos, rand_filter(rng, comps, 3))
        return qs
    if n == 0:
        add([], 0, ('Not', ('None',)))
        add([], None, ('Ident',))
        return qs
    # every kind x every component (identifier present on odd components)
    for c in comps:
        for k in (VK if n <= 6 else [VK[c % 4], VK[(c + 2) % 4]]):
            add([(c, k)], (0 if (c + VK.index(k)) % 3 == 0 else (1 if (c + VK.index(k)) % 3 == 1 else None)), ('None',))
    if n >= 2:
        a, b = (1, 4) if n >= 5 else (0, n - 1)
        # every ordered kind pair on two components, both orders of writing
        for k1 in VK:
            for k2 in VK:
                add([(a, k1), (b, k2)], None, ('None',))
                if n <= 6 or (VK.index(k1) + VK.index(k2)) % 2 == 0:
                    add([(b, k2), (a, k1)], 1, ('None',))
    if n >= 3:
        x, y, z = (0, 2, 3) if n >= 4 else (0, 1, 2)
        H = lambda c: ('Has', c)
        N = lambda f: ('Not', f)
        base = [H(x), N(H(x)), ('And', H(x), H(y)), ('Or', H(x), H(y)), N(('And', H(x), H(y))), N(('Or', H(x), H(y))),
                ('And', N(H(x)), H(y)), ('Or', N(H(x)), N(H(y))), ('And', ('Or', H(x), H(y)), N(H(z))),
                ('Or', ('And', H(x), H(y)), H(z)), N(N(H(z))), ('View', x, 'Ref'), ('View', x, 'Mut'),
                ('View', x, 'OptRef'), ('View', y, 'OptMut'), N(('View', y, 'Ref')), N(('View', y, 'OptRef')),
                ('Views', [('View', x, 'Ref'), ('View', y, 'Mut')]), ('Views', [('View', x, 'OptRef'), ('Ident',), ('View', z, 'Ref')]),
                ('Views', []), N(('Views', [('View', x, 'Ref'), ('View', z, 'Ref')])), ('Ident',), N(('Ident',)), N(('None',)),
                ('And', ('None',), H(z)), ('Or', ('None',), H(z))]
        for i, f in enumerate(base):
            # views over a component not in the filter, alternating kinds, and the empty view list
            v = [((z + 1) % n, VK[i % 4])]
            add(v, None if i % 2 else 0, f)
            if i % 3 == 0:
                add([], 0, f)
    # wide queries: all components, each kind
    for k in (VK if n <= 6 else ['Mut', 'OptRef']):
        add([(c, k) for c in comps], len(comps) // 2, ('None',))
    add([(c, VK[c % 4]) for c in reversed(comps)], 0, ('None',))
    # random part
    tries = 0
    while len(qs) < len(seen) + 0 and False:
        pass
    target = len(qs) + nrand
    while len(qs) < target and tries < 10000:
        tries += 1
        k = rng.choice([0, 1, 1, 2, 2, 3, 3, 4]) if n >= 4 else rng.randint(0, n)
        cs = rng.sample(comps, min(k, n))
        views = [(c, rng.choice(VK)) for c in cs]
        id_pos = rng.choice([None, None, rng.randint(0, len(views))])
        f = rand_filter(rng, comps, 3)
        add(views, id_pos, f)
    return qs


def disjoint_ok(views, entry_views):
    ev = dict(entry_views)
    for c, k in views:
        if c in ev and (k in ('Mut', 'OptMut') or ev[c] in ('Mut', 'OptMut')):
            return False
    return True


SUB_OK = {
    'Ref': ['Ref', 'Mut', 'OptRef', 'OptMut'],
    'OptRef': ['Ref', 'Mut', 'OptRef', 'OptMut'],
    'Mut': ['Mut', 'OptMut'],
    'OptMut': ['Mut', 'OptMut'],
}


def gen_entries(rng, n, nrand, random_only=False):
    """list of (views, entry_views, entry_has_id, sub_views, sub_id_pos, sub_filter)"""
    out = []
    seen = set()
    comps = list(range(n))
    if n == 0:
        return [([], [], True, [], 0, ('None',)), ([], [], False, [], None, ('None',))]

    def add(views, ev, ev_id, sub, sub_id, f):
        assert disjoint_ok(views, ev)
        key = repr((views, ev, ev_id, sub, sub_id, f))
        if key not in seen:
            seen.add(key)
            out.append((views, ev, ev_id, sub, sub_id, f))
    # systematic: every admissible (sub kind <- super kind) pairing on one component,
    # with a second declared component before/after it to move the column cursor
    for sk in ([] if random_only else VK):
        for supk in SUB_OK[sk]:
            for c in ([1, n - 1] if n >= 3 else [0]):
                others = [x for x in comps if x != c]
                ev = [(c, supk)]
                if others:
                    o1 = others[0]
                    ev = [(o1, 'OptMut')] + ev if c % 2 else ev + [(o1, 'OptRef')]
                views = [(others[-1], 'Ref')] if len(others) >= 2 else []
                add(views, ev, True, [(c, sk)], None, ('None',))
                add([], list(reversed(ev)), False, [(c, sk)], None, ('Has', c) if sk in ('OptRef', 'OptMut') else ('None',))
    # sub view list empty / identifier only / all of the entry views
    ev = [(c, VK[(c + 1) % 4]) for c in comps[:4]]
    add([], ev, True, [], 0, ('None',))
    add([], ev, True, [], None, ('None',))
    for kind_shift in ([] if random_only else range(4)):
        ev = [(c, VK[(c + kind_shift) % 4]) for c in comps]
        sub = [(c, rng.choice(SUB_OK_INV[k])) for c, k in ev]
        add([], ev, True, list(reversed(sub)), 1 if sub else 0, ('None',))
    tries = 0
    target = len(out) + nrand
    while len(out) < target and tries < 10000:
        tries += 1
        k = rng.randint(1, min(4, n))
        ecs = rng.sample(comps, k)
        ev = [(c, rng.choice(VK)) for c in ecs]
        ev_id = rng.random() < 0.5
        # views: components not conflicting
        vcs = rng.sample(comps, rng.randint(0, min(3, n)))
        views = []
        evd = dict(ev)
        for c in vcs:
            if c in evd:
                if evd[c] in ('Ref', 'OptRef'):
                    views.append((c, rng.choice(['Ref', 'OptRef'])))
            else:
                views.append((c, rng.choice(VK)))
        scs = rng.sample(ecs, rng.randint(0, k))
        sub = [(c, rng.choice(SUB_OK_INV[evd[c]])) for c in scs]
        sub_id = rng.randint(0, len(sub)) if (ev_id and rng.random() < 0.5) else None
        f = rand_filter(rng, ecs, 2, {c: SUB_OK_INV[evd[c]] for c in ecs})
        # filters may only use views-as-filter / Has over entry-view components (documented limitation)
        add(views, ev, ev_id, sub, sub_id, f)
    return out


# inverse table: given the super kind, which sub kinds are admissible
SUB_OK_INV = {s: [k for k in VK if s in SUB_OK[k]] for s in VK}


def sample_shapes(name, n, rng):
    if n <= 6:
        return list(range(1 << n))
    full = (1 << n) - 1
    shapes = {0, full, 1, 1 << (n - 1)}
    if n > 8:
        hi = ((1 << n) - 1) & ~0xff
        shapes |= {hi, 0xff, 0x80 | 0x100, 0x101, full & ~0x100}
    if n > 16:
        shapes |= {1 << 16, 0xffff, 0x10000 | 0x8000, 0x10001, full & ~0x10000, 0xff00, 0x10100}
    while len(shapes) < 64:
        m = rng.getrandbits(n)
        if n > 16:
            # keep rows narrow enough to stay cheap, but straddle the byte boundaries
            m &= rng.getrandbits(n) | rng.getrandbits(n) & rng.getrandbits(n)
            if rng.random() < 0.6:
                m |= 1 << 16
            if rng.random() < 0.5:
                m |= 1 << rng.randint(8, 15)
        elif n > 8 and rng.random() < 0.7:
            m |= 1 << rng.randint(8, n - 1)
            m |= 1 << rng.randint(0, 7)
        shapes.add(m)
    return sorted(shapes)


def orders_for(cs, max_orders):
    k = len(cs)
    out = [list(cs)]
    if k >= 2 and max_orders >= 2:
        out.append(list(reversed(cs)))
    if k >= 3 and max_orders >= 3:
        out.append(cs[1:] + cs[:1])
    return out


def emit(name, seed, nq, ne):
    comps = REGS[name]
    n = len(comps)
    rng = random.Random('%s-%d' % (name, seed))
    shapes = sample_shapes(name, n, rng)
    par_mode = name in PAR_SLICE
    max_orders = 1 if par_mode else (3 if n <= 6 else 2)
    rich = n <= 6 and not par_mode  # entities! macro forms
    o = []
    w = o.append
    w('// @generated by gen/gen_reg.py %s seed=%d queries=%d entries=%d' % (name, seed, nq, ne))
    w('#![allow(unused_variables, unused_mut, unused_imports, clippy::all)]')
    w('use brood::{entities, entities::Batch, entity, query::{filter, result, Views}, Entity, Query, Registry, World, system::{System, ParSystem}, registry::ContainsViews};')
    w('use rayon::iter::ParallelIterator;')
    w('use vcommon::{comps::*, talloc::tracked};')
    w('use vcore::reg::*;')
    w('use vcore::reg_world_ops;')
    for i, (k, m) in enumerate(comps):
        w('pub type C%d = %s<%d>;' % (i, k, m))
    w('pub type R = Registry!(%s);' % ', '.join('C%d' % i for i in range(n)))
    w('pub type W = World<R, Res4>;')
    w('pub struct Rg;')
    w('fn col<C: Comp>(rows: &[Vec<u32>], c: usize) -> Vec<C> { let n = rows.len(); let mut v = Vec::with_capacity(n + n % 3); for r in rows { v.push(C::make(r[c])); } v }')
    all_opt = 'Views!(%s)' % ', '.join('Option<&C%d>' % i for i in range(n))
    all_opt_id = 'Views!(%s)' % ', '.join(['entity::Identifier'] + ['Option<&C%d>' % i for i in range(n)])
    res_all = 'result!(%s)' % ', '.join('c%d' % i for i in range(n))
    res_all_id = 'result!(%s)' % ', '.join(['id'] + ['c%d' % i for i in range(n)])
    obs_vec = 'vec![%s]' % ', '.join('c%d.map(|x| x.obs())' % i for i in range(n))

    # ---------------- queries
    random_only = name.startswith('t') or name in ('r17', 'r9')
    queries = gen_queries(rng, n, nq, random_only)
    if par_mode:
        off, stride = PAR_SLICE[name]
        # every query of this crate is also compiled as a parallel query; prefer queries with views
        cands = [q for q in queries if q[0]] + [q for q in queries if not q[0]][:2]
        queries = cands[off::stride]
        queries = queries[::6] if name == 'p10' else queries[::2]
    w('static QUERIES: &[QueryMeta] = &[')
    for qi, (views, id_pos, f) in enumerate(queries):
        text = 'Query<%s, %s>' % (views_ty(views, id_pos), flt_ty(f))
        w('    QueryMeta { name: "q%d", views: %s, has_id: %s, filter: %s, text: %s },' % (
            qi, views_data(views), 'true' if id_pos is not None else 'false', flt_data(f), json.dumps(text)))
    w('];')
    for qi, (views, id_pos, f) in enumerate(queries):
        names = ['v%d' % i for i in range(len(views))]
        pat = list(names)
        if id_pos is not None:
            pat.insert(id_pos, 'id')
        rpat = 'result!(%s)' % ', '.join(pat)
        body = 'let mut row = QRow::default(); '
        if id_pos is not None:
            body += 'row.id = Some(id); '
        for i, (c, k) in enumerate(views):
            body += 'row.cols.push((%d, v%d.observe(salt))); ' % (c, i)
        body += 'rows.push(row);'
        vt = views_ty(views, id_pos)
        vta = views_ty(views, id_pos, 'a')
        ft = flt_ty(f)
        fte = flt_ty(f, '')
        w('struct Sys%d { salt: Option<u32>, rows: Vec<QRow> }' % qi)
        w('impl System for Sys%d {' % qi)
        w('    type Filter = %s; type Views<\'a> = %s; type ResourceViews<\'a> = Views!(); type EntryViews<\'a> = Views!();' % (ft, vta))
        w('    fn run<\'a, R_, S, I, E>(&mut self, query_result: brood::query::Result<\'a, R_, S, I, Self::ResourceViews<\'a>, Self::EntryViews<\'a>, E>) where R_: ContainsViews<\'a, Self::EntryViews<\'a>, E>, I: Iterator<Item = Self::Views<\'a>> {')
        w('        let salt = self.salt; let rows = &mut self.rows;')
        w('        for %s in query_result.iter { %s }' % (rpat, body))
        w('    }')
        w('}')
        w('fn q%d(w: &mut W, mode: QMode, salt: Option<u32>) -> QueryOut {' % qi)
        w('    let mut out = QueryOut::default();')
        w('    match mode {')
        w('        QMode::System => { let mut s = Sys%d { salt, rows: Vec::new() }; tracked(|| w.run_system(&mut s)); out.rows = s.rows; }' % qi)
        w('        QMode::Next | QMode::Mixed(_) => {')
        w('            let result = tracked(|| w.query(Query::<%s, %s>::new()));' % (vt, fte))
        w('            let mut it = result.iter; let rows = &mut out.rows;')
        w('            let limit = if let QMode::Mixed(k) = mode { k as usize } else { usize::MAX };')
        w('            loop { if rows.len() >= limit { break; } out.hints.push(it.size_hint()); match it.next() { None => break, Some(%s) => { %s } } }' % (rpat, body))
        w('            if rows.len() >= limit { out.hints.push(it.size_hint()); it.for_each(|%s| { %s }); }' % (rpat, body))
        w('        }')
        w('        QMode::Fold => {')
        w('            let result = tracked(|| w.query(Query::<%s, %s>::new()));' % (vt, fte))
        w('            let it = result.iter; out.hints.push(it.size_hint()); let rows = &mut out.rows;')
        w('            it.for_each(|%s| { %s });' % (rpat, body))
        w('        }')
        w('    }')
        w('    out')
        w('}')
        # entry query (World::entry(id).query) with the same views/filter
        w('fn eq%d(w: &mut W, id: Id, salt: Option<u32>) -> Option<Option<QRow>> {' % qi)
        w('    let mut e = w.entry(id)?;')
        w('    Some(match e.query(Query::<%s, %s>::new()) { None => None, Some(%s) => { let mut rows: Vec<QRow> = Vec::new(); %s rows.pop() } })' % (vt, fte, rpat, body))
        w('}')

    # ---------------- entry triples
    entries = gen_entries(rng, n, ne, random_only)
    if par_mode:
        entries = entries[:2]
    w('static ENTRIES: &[EntryMeta] = &[')
    for ei, (views, ev, ev_id, sub, sub_id, f) in enumerate(entries):
        text = 'Query<%s, filter::None, Views!(), %s> / sub Query<%s, %s>' % (
            views_ty(views, None), views_ty(ev, 0 if ev_id else None), views_ty(sub, sub_id), flt_ty(f))
        w('    EntryMeta { name: "e%d", views: %s, entry_views: %s, sub_views: %s, sub_has_id: %s, sub_filter: %s, text: %s },' % (
            ei, views_data(views), views_data(ev), views_data(sub), 'true' if sub_id is not None else 'false', flt_data(f), json.dumps(text)))
    w('];')
    for ei, (views, ev, ev_id, sub, sub_id, f) in enumerate(entries):
        names = ['v%d' % i for i in range(len(sub))]
        pat = list(names)
        if sub_id is not None:
            pat.insert(sub_id, 'sid')
        rpat = 'result!(%s)' % ', '.join(pat)
        body = 'let mut row = QRow::default(); '
        if sub_id is not None:
            body += 'row.id = Some(sid); '
        for i, (c, k) in enumerate(sub):
            body += 'row.cols.push((%d, v%d.observe(salt))); ' % (c, i)
        inames = ['iv%d' % i for i in range(len(views))]
        ipat = 'result!(%s)' % ', '.join(inames)
        ibody = 'let mut irow = QRow::default(); '
        for i, (c, k) in enumerate(views):
            ibody += 'irow.cols.push((%d, iv%d.observe(None))); ' % (c, i)
        probe = 'out.push(match result.entries.entry(ids[next]) { None => None, Some(mut e) => Some(match e.query(Query::<%s, %s>::new()) { None => None, Some(%s) => { %s Some(row) } }) }); next += 1;' % (
            views_ty(sub, sub_id), flt_ty(f, ''), rpat, body)
        w('fn en%d(w: &mut W, ids: &[Id], salt: Option<u32>, interleave: bool) -> (EntriesOut, Option<Vec<QRow>>) {' % ei)
        w('    let mut result = tracked(|| w.query(Query::<%s, filter::None, Views!(), %s>::new()));' % (
            views_ty(views, None), views_ty(ev, 0 if ev_id else None)))
        w('    let mut out = Vec::new();')
        w('    let mut rows = None;')
        w('    let mut next = 0usize;')
        w('    if interleave {')
        w('        // iterate the query while probing entries in between: views and entry views are in use together')
        w('        let mut r = Vec::new();')
        w('        for %s in result.iter { %s r.push(irow); if next < ids.len() { %s } }' % (ipat, ibody, probe))
        w('        rows = Some(r);')
        w('    }')
        w('    while next < ids.len() { %s }' % probe)
        w('    (out, rows)')
        w('}')

    # ---------------- parallel queries (C09): a subset of the query pool through par_query / ParSystem
    pick = list(range(len(queries))) if par_mode else []
    w('static PAR_QUERIES: &[usize] = &[%s];' % ', '.join(str(i) for i in pick))
    for qi in pick:
        views, id_pos, f = queries[qi]
        names = ['v%d' % i for i in range(len(views))]
        pat = list(names)
        if id_pos is not None:
            pat.insert(id_pos, 'id')
        rpat = 'result!(%s)' % ', '.join(pat)
        mk = 'let mut row = QRow::default(); '
        if id_pos is not None:
            mk += 'row.id = Some(id); '
        for i, (c, k) in enumerate(views):
            mk += 'row.cols.push((%d, v%d.observe(salt))); ' % (c, i)
        mk += 'row'
        vt = views_ty(views, id_pos)
        vta = views_ty(views, id_pos, 'a')
        w('struct PSys%d { salt: Option<u32>, rows: std::sync::Mutex<Vec<QRow>> }' % qi)
        w('impl ParSystem for PSys%d {' % qi)
        w("    type Filter = %s; type Views<'a> = %s; type ResourceViews<'a> = Views!(); type EntryViews<'a> = Views!();" % (flt_ty(f), vta))
        w("    fn run<'a, R_, S, I, E>(&mut self, query_result: brood::query::Result<'a, R_, S, I, Self::ResourceViews<'a>, Self::EntryViews<'a>, E>) where R_: ContainsViews<'a, Self::EntryViews<'a>, E>, I: ParallelIterator<Item = Self::Views<'a>> {")
        w('        let salt = self.salt; let rows = &self.rows;')
        w('        query_result.iter.for_each(|%s| { let row = { %s }; rows.lock().unwrap().push(row); });' % (rpat, mk))
        w('    }')
        w('}')
        w('fn pq%d(w: &mut W, term: PTerm, salt: Option<u32>, pool: &rayon::ThreadPool) -> ParOut {' % qi)
        w('    if term == PTerm::System { let mut s = PSys%d { salt, rows: std::sync::Mutex::new(Vec::new()) }; pool.install(|| w.run_par_system(&mut s)); return ParOut { rows: s.rows.into_inner().unwrap(), ..Default::default() }; }' % qi)
        w('    pool.install(|| { let result = w.par_query(Query::<%s, %s>::new()); par_consume(term, result.iter.map(move |%s| { %s })) })' % (vt, flt_ty(f, ''), rpat, mk))
        w('}')

    # ---------------- resource views (C15): subsets x orders x mutability of the 4-resource list
    RES_TY = ['ResNum<0>', 'ResStr<1>', 'ResZst<2>', 'ResWide<3>']
    res_views = []
    if name in ('r6', 'r1'):
        rrng = random.Random('resviews-%s-%d' % (name, seed))
        for mask in range(1, 16):
            idxs = [i for i in range(4) if mask >> i & 1]
            variants = [(list(idxs), [False] * len(idxs)), (list(reversed(idxs)), [True] * len(idxs))]
            if len(idxs) >= 2:
                # Only orderings that type-check: on the pinned commit 24 of the 60 orderings of 2-4
                # resource views (e.g. Views!(&mut R1, &mut R2, &mut R0)) fail type inference in
                # brood's reshaping, so they cannot be part of a run-time check (measured with a
                # generated program per ordering; reported as an observation in DESIGN.md).
                OK_RANKS = {2: [(0, 1), (1, 0)], 3: [(0, 1, 2), (0, 2, 1), (1, 0, 2), (2, 1, 0)],
                            4: [(0, 1, 2, 3), (0, 1, 3, 2), (0, 2, 1, 3), (0, 3, 2, 1), (1, 0, 2, 3), (1, 0, 3, 2), (2, 1, 0, 3), (3, 2, 1, 0)]}
                for ranks in OK_RANKS[len(idxs)]:
                    perm = [idxs[r] for r in ranks]
                    variants.append((perm, [rrng.random() < 0.6 for _ in perm]))
            for order, muts in variants:
                rv = list(zip(order, muts))
                if rv not in res_views:
                    res_views.append(rv)
        res_views.append([])
        if name == 'r1':
            res_views = res_views[::4]
    w('static RES_VIEWS: &[ResViewMeta] = &[%s];' % ', '.join('ResViewMeta { views: &[%s] }' % ', '.join('(%d, %s)' % (i, 'true' if m else 'false') for i, m in rv) for rv in res_views))
    for ri, rv in enumerate(res_views):
        def rty(lt):
            l = ("'%s " % lt) if lt else ''
            return 'Views!(%s)' % ', '.join(('&%smut %s' if m else '&%s%s') % (l, RES_TY[i]) for i, m in rv)
        names = ['r%d' % k for k in range(len(rv))]
        rpat = 'result!(%s)' % ', '.join(names)
        body = ' '.join('out.push((%d, %s.observe_res(salt)));' % (i, names[k]) for k, (i, m) in enumerate(rv))
        w('struct RSys%d { salt: Option<u32>, out: Vec<(u8, (Obs, Obs))> }' % ri)
        w('impl System for RSys%d {' % ri)
        w("    type Filter = filter::None; type Views<'a> = Views!(); type ResourceViews<'a> = %s; type EntryViews<'a> = Views!();" % rty('a'))
        w("    fn run<'a, R_, S, I, E>(&mut self, query_result: brood::query::Result<'a, R_, S, I, Self::ResourceViews<'a>, Self::EntryViews<'a>, E>) where R_: ContainsViews<'a, Self::EntryViews<'a>, E>, I: Iterator<Item = Self::Views<'a>> {")
        w('        let salt = self.salt; let out = &mut self.out; let %s = query_result.resources; %s' % (rpat, body))
        w('    }')
        w('}')
        w('fn rv%d(w: &mut W, path: u8, salt: Option<u32>) -> Vec<(u8, (Obs, Obs))> {' % ri)
        w('    let mut out = Vec::new();')
        w('    match path % 3 {')
        w('        0 => { let %s = w.view_resources::<%s, _>(); %s }' % (rpat, rty(''), body))
        w('        1 => { let result = w.query(Query::<Views!(), filter::None, %s>::new()); let %s = result.resources; %s }' % (rty(''), rpat, body))
        w('        _ => { let mut s = RSys%d { salt, out: Vec::new() }; w.run_system(&mut s); out = s.out; }' % ri)
        w('    }')
        w('    out')
        w('}')

    # ---------------- Reg impl
    w('impl Reg for Rg {')
    w('    const NAME: &\'static str = "%s"; const N: usize = %d; type W = W;' % (name, n))
    w('    reg_world_ops!();')
    w('    fn norm(comp: usize, p: u32) -> u32 { match comp { %s _ => unreachable!() } }' % ' '.join('%d => C%d::norm(p),' % (i, i) for i in range(n)))
    w('    fn has_serial(comp: usize) -> bool { match comp { %s _ => unreachable!() } }' % ' '.join('%d => C%d::HAS_SERIAL,' % (i, i) for i in range(n)))
    w('    fn comp_kind(comp: usize) -> (vcommon::ledger::Kind, u8) { match comp { %s _ => unreachable!() } }' % ' '.join('%d => (C%d::KIND, C%d::N),' % (i, i, i) for i in range(n)))
    shape_rows = []
    ins = []
    ext = []
    rsv = []
    for m in shapes:
        cs = bits(m, n)
        ords = orders_for(cs, max_orders)
        shape_rows.append('(%d, %d, %d)' % (m, len(ords), len(ords)))
        for oi, od in enumerate(ords):
            ent = 'entity!(%s)' % ', '.join('C%d::make(p[%d])' % (c, c) for c in od)
            ins.append('            (%d, %d) => { let e = %s; tracked(|| w.insert(e)) }' % (m, oi, ent))
            cols = 'entities::Null'
            for c in reversed(od):
                cols = '(col::<C%d>(rows, %d), %s)' % (c, c, cols)
            ext.append('            (%d, %d, 0) => { let b = Batch::new(%s); tracked(|| w.extend(b)) }' % (m, oi, cols))
            if rich and oi == 0:
                def rowexpr(r):
                    return '(%s)' % ', '.join('C%d::make(rows[%d][%d])' % (c, r, c) for c in od)
                if cs:
                    arms = []
                    for nr in (1, 2, 3):
                        arms.append('%d => { let b = entities!(%s); tracked(|| w.extend(b)) }' % (nr, ', '.join(rowexpr(r) for r in range(nr))))
                    ext.append('            (%d, %d, 1) => match rows.len() { %s _ => unreachable!() }' % (m, oi, ' '.join(arms)))
                    ext.append('            (%d, %d, 2) => { let n = rows.len(); let b = entities!(%s; n); tracked(|| w.extend(b)) }' % (m, oi, rowexpr(0)))
                else:
                    ext.append('            (%d, %d, 1) => { let b = entities!(); tracked(|| w.extend(b)) }' % (m, oi))
                    ext.append('            (%d, %d, 2) => { let n = rows.len(); let b = entities!((); n); tracked(|| w.extend(b)) }' % (m, oi))
        od = ords[-1] if m % 2 else ords[0]
        rsv.append('            %d => tracked(|| w.reserve::<Entity!(%s), _>(n)),' % (m, ', '.join('C%d' % c for c in od)))
    w('    fn shapes() -> &\'static [(u32, u8, u8)] { &[%s] }' % ', '.join(shape_rows))
    w('    fn insert(w: &mut W, mask: u32, order: u8, p: &[u32]) -> Id {')
    w('        match (mask, order) {')
    o.extend(ins)
    w('            _ => unreachable!("insert shape {mask} order {order}"),')
    w('        }')
    w('    }')
    w('    fn extend_modes(mask: u32, order: u8) -> u8 { %s }' % ('if order == 0 { 0b111 } else { 0b001 }' if rich else '0b001'))
    w('    fn extend(w: &mut W, mask: u32, order: u8, mode: u8, rows: &[Vec<u32>]) -> Vec<Id> {')
    w('        match (mask, order, mode) {')
    o.extend(ext)
    w('            _ => unreachable!("extend shape {mask} order {order} mode {mode}"),')
    w('        }')
    w('    }')
    w('    fn reserve(w: &mut W, mask: u32, n: usize) {')
    w('        match mask {')
    o.extend(rsv)
    w('            _ => unreachable!(),')
    w('        }')
    w('    }')
    w('    fn entry_add(w: &mut W, id: Id, comp: usize, p: u32) -> bool {')
    w('        let Some(mut e) = w.entry(id) else { return false };')
    w('        match comp { %s _ => unreachable!() }' % ' '.join('%d => { let v = C%d::make(p); tracked(|| e.add(v)); }' % (i, i) for i in range(n)))
    w('        true')
    w('    }')
    w('    fn entry_remove(w: &mut W, id: Id, comp: usize) -> bool {')
    w('        let Some(mut e) = w.entry(id) else { return false };')
    w('        match comp { %s _ => unreachable!() }' % ' '.join('%d => { tracked(|| e.remove::<C%d, _>()); }' % (i, i) for i in range(n)))
    w('        true')
    w('    }')
    w('    fn entry_chain(w: &mut W, id: Id, steps: &[(u8, u8, u32)]) -> Option<Vec<Vec<Option<Obs>>>> {')
    w('        let mut e = w.entry(id)?;')
    w('        let mut out = Vec::new();')
    w('        for (kind, comp, p) in steps {')
    w('            match (kind % 3, *comp as usize % ' + str(max(n, 1)) + ') {')
    for i in range(n):
        w('                (0, %d) => { let v = C%d::make(C%d::norm(*p %% 60_000)); tracked(|| e.add(v)); }' % (i, i, i))
        w('                (1, %d) => { tracked(|| e.remove::<C%d, _>()); }' % (i, i))
    w('                _ => { out.push(match e.query(Query::<%s>::new()) { Some(%s) => %s, None => vec![None; %d + 1] }); }' % (all_opt, res_all, obs_vec, n))
    w('            }')
    w('        }')
    w('        Some(out)')
    w('    }')
    w('    fn extend_ragged(w: &mut W, mask: u32, lens: &[usize], p: u32) -> Option<Vec<Id>> {')
    w('        fn coln<C: Comp>(n: usize, p: u32) -> Vec<C> { (0..n).map(|i| C::make(C::norm(p.wrapping_add(i as u32) % 60_000))).collect() }')
    w('        match mask {')
    for m in shapes:
        cs = bits(m, n)
        if len(cs) >= 2 and rich:
            cols = 'entities::Null'
            for k, c in reversed(list(enumerate(cs))):
                cols = '(coln::<C%d>(lens[%d %% lens.len()], p), %s)' % (c, k, cols)
            w('            %d => { let b = Batch::new(%s); Some(tracked(|| w.extend(b))) }' % (m, cols))
    w('            _ => None,')
    w('        }')
    w('    }')
    w('    fn snapshot(w: &mut W) -> Vec<Row> {')
    w('        let mut out = Vec::new();')
    w('        for %s in w.query(Query::<%s>::new()).iter { out.push(Row { id, comps: %s }); }' % (res_all_id, all_opt_id, obs_vec))
    w('        out')
    w('    }')
    w('    fn entry_snapshot(w: &mut W, id: Id) -> Option<Vec<Option<Obs>>> {')
    w('        let mut e = w.entry(id)?;')
    w('        match e.query(Query::<%s>::new()) { Some(%s) => Some(%s), None => Some(vec![None; %d + 1]) }' % (all_opt, res_all, obs_vec, n))
    w('    }')
    w('    fn entries_snapshot(w: &mut W, ids: &[Id]) -> Vec<Option<Vec<Option<Obs>>>> {')
    w('        let mut result = w.query(Query::<Views!(), filter::None, Views!(), %s>::new());' % all_opt)
    w('        let mut out = Vec::new();')
    w('        for id in ids { out.push(match result.entries.entry(*id) { None => None, Some(mut e) => match e.query(Query::<%s>::new()) { Some(%s) => Some(%s), None => Some(vec![None; %d + 1]) } }); }' % (all_opt, res_all, obs_vec, n))
    w('        out')
    w('    }')
    w('    fn queries() -> &\'static [QueryMeta] { QUERIES }')
    w('    fn run_query(w: &mut W, q: usize, mode: QMode, salt: Option<u32>) -> QueryOut { match q { %s _ => unreachable!() } }' % ' '.join('%d => q%d(w, mode, salt),' % (i, i) for i in range(len(queries))))
    w('    fn entry_query(w: &mut W, id: Id, q: usize, salt: Option<u32>) -> Option<Option<QRow>> { match q { %s _ => unreachable!() } }' % ' '.join('%d => eq%d(w, id, salt),' % (i, i) for i in range(len(queries))))
    w('    fn res_views() -> &\'static [ResViewMeta] { RES_VIEWS }')
    w('    fn run_res_view(w: &mut W, rv: usize, path: u8, salt: Option<u32>) -> Vec<(u8, (Obs, Obs))> { match rv { %s _ => unreachable!() } }' % ' '.join('%d => rv%d(w, path, salt),' % (i, i) for i in range(len(res_views))))
    w('    fn par_queries() -> &\'static [usize] { PAR_QUERIES }')
    w('    fn run_par_query(w: &mut W, q: usize, term: PTerm, salt: Option<u32>, pool: &rayon::ThreadPool) -> ParOut { match q { %s _ => unreachable!() } }' % ' '.join('%d => pq%d(w, term, salt, pool),' % (i, i) for i in pick))
    w('    fn entry_metas() -> &\'static [EntryMeta] { ENTRIES }')
    w('    fn entries_query(w: &mut W, e: usize, ids: &[Id], salt: Option<u32>, interleave: bool) -> (EntriesOut, Option<Vec<QRow>>) { match e { %s _ => unreachable!() } }' % ' '.join('%d => en%d(w, ids, salt, interleave),' % (i, i) for i in range(len(entries))))
    w('}')
    src = '\n'.join(o) + '\n'
    digest = hashlib.sha256(src.encode()).hexdigest()[:16]
    src += 'pub const POOL_DIGEST: &str = "%s";\n' % digest
    return src


if __name__ == '__main__':
    name, seed, out = sys.argv[1], int(sys.argv[2]), sys.argv[3]
    nq = int(sys.argv[sys.argv.index('--queries') + 1]) if '--queries' in sys.argv else 30
    ne = int(sys.argv[sys.argv.index('--entries') + 1]) if '--entries' in sys.argv else 20
    src = emit(name, seed, nq, ne)
    try:
        old = open(out).read()
    except OSError:
        old = None
    if old != src:
        open(out, 'w').write(src)
