#!/usr/bin/env python3
"""Seeded generator of schedule pools (C07, C08, C12): many small binaries so that rustc can
monomorphise them in parallel (one 2-task run_schedule costs 6-10 s of single-threaded rustc).

usage: gen_sched.py <outdir> <seed> [--random N] [--bins B] [--prefix P]

Writes <outdir>/<P>NN/{Cargo.toml,src/main.rs} and <outdir>/<P>index.json (schedule -> bin).
The systematic part does not depend on the seed; the random part does.
"""
import sys, os, json, random, hashlib

COMPS = ['A', 'B', 'C', 'D']
RES = ['RA', 'RB', 'RC']
VK = ['Ref', 'Mut', 'OptRef', 'OptMut']
MUT = {'Ref': False, 'Mut': True, 'OptRef': False, 'OptMut': True}


def view_ty(c, k, lt):
    l = ("'%s " % lt) if lt else ''
    return {'Ref': '&%s%s' % (l, c), 'Mut': '&%smut %s' % (l, c), 'OptRef': 'Option<&%s%s>' % (l, c), 'OptMut': 'Option<&%smut %s>' % (l, c)}[k]


def views_ty(views, has_id, lt):
    items = [view_ty(c, k, lt) for c, k in views]
    if has_id:
        items.insert(len(items) // 2, 'entity::Identifier')
    return 'Views!(%s)' % ', '.join(items)


def flt_ty(f):
    t = f[0]
    if t == 'None':
        return 'filter::None'
    if t == 'Has':
        return 'filter::Has<%s>' % f[1]
    if t == 'Not':
        return 'filter::Not<%s>' % flt_ty(f[1])
    if t == 'And':
        return 'filter::And<%s, %s>' % (flt_ty(f[1]), flt_ty(f[2]))
    if t == 'Or':
        return 'filter::Or<%s, %s>' % (flt_ty(f[1]), flt_ty(f[2]))
    raise ValueError(f)


def task(par=False, views=(), has_id=False, flt=('None',), res=(), entry=()):
    return dict(par=par, views=list(views), has_id=has_id, flt=flt, res=list(res), entry=list(entry))


def access(t):
    """declared access: component/resource -> mutable?"""
    acc = {}
    for c, k in t['views'] + t['entry']:
        acc[c] = acc.get(c, False) or MUT[k]
    for r, m in t['res']:
        acc[r] = acc.get(r, False) or m
    return acc


def conflict(a, b):
    x, y = access(a), access(b)
    return any(k in y and (x[k] or y[k]) for k in x)


def groups(tasks):
    out = [[]]
    for i, t in enumerate(tasks):
        if any(conflict(tasks[j], t) for j in out[-1]):
            out.append([])
        out[-1].append(i)
    return out


def task_text(t):
    s = ('ParSystem ' if t['par'] else 'System ') + views_ty(t['views'], t['has_id'], '')
    if t['flt'] != ('None',):
        s += ' filter ' + flt_ty(t['flt'])
    if t['res']:
        s += ' res ' + 'Views!(%s)' % ', '.join(('&mut ' if m else '&') + r for r, m in t['res'])
    if t['entry']:
        s += ' entries ' + views_ty(t['entry'], False, '')
    return s


def valid(t):
    cs = [c for c, _ in t['views']]
    if len(set(cs)) != len(cs):
        return False
    es = [c for c, _ in t['entry']]
    if len(set(es)) != len(es):
        return False
    ev = dict(t['entry'])
    for c, k in t['views']:
        if c in ev and (MUT[k] or MUT[ev[c]]):
            return False
    rs = [r for r, _ in t['res']]
    return len(set(rs)) == len(rs)


def systematic():
    scheds = []
    n = 0
    # every ordered pair of view kinds on one component, positions Views/Views and Views/Entry, Entry/Views, Entry/Entry
    for pos in ['VV', 'VE', 'EV', 'EE']:
        for k1 in VK:
            for k2 in VK:
                if pos in ('EV', 'EE') and not (MUT[k1] or MUT[k2]) and (k1, k2) != ('Ref', 'OptRef'):
                    continue  # immutable/immutable pairs are covered by VV and VE
                n += 1
                par1 = n % 5 == 0 and pos[0] == 'V'
                par2 = n % 3 == 0 and pos[1] == 'V'
                t1 = task(par=par1, views=[('A', k1)] if pos[0] == 'V' else [('B', 'Ref')], entry=[('A', k1)] if pos[0] == 'E' else [], has_id=(n % 4 == 0))
                t2 = task(par=par2, views=[('A', k2)] if pos[1] == 'V' else [('C', 'Ref')], entry=[('A', k2)] if pos[1] == 'E' else [], has_id=(n % 7 == 0))
                scheds.append([t1, t2])
    # resources
    for m1 in (False, True):
        for m2 in (False, True):
            scheds.append([task(views=[('A', 'Mut')], res=[('RA', m1)]), task(views=[('B', 'Mut')], res=[('RA', m2), ('RB', True)])])
    scheds.append([task(views=[('A', 'Mut')], res=[('RA', True)]), task(par=True, views=[('B', 'Mut')], res=[('RB', True), ('RC', False)])])
    # conflict-free twins on different components
    scheds.append([task(views=[('A', 'Mut')]), task(views=[('B', 'Mut')])])
    scheds.append([task(views=[('A', 'Mut')], entry=[('C', 'Mut')]), task(views=[('B', 'OptMut')], entry=[('D', 'OptMut')])])
    scheds.append([task(par=True, views=[('A', 'Mut'), ('C', 'Ref')]), task(par=True, views=[('B', 'Mut'), ('C', 'Ref')])])
    # filter-disjoint conflicting tasks (dynamic early start)
    scheds.append([task(views=[('A', 'Mut')], flt=('Has', 'B')), task(views=[('A', 'Mut')], flt=('Not', ('Has', 'B')))])
    scheds.append([task(views=[('A', 'Mut'), ('B', 'Ref')]), task(views=[('A', 'Mut')], flt=('Not', ('Has', 'B')), has_id=True)])
    scheds.append([task(views=[('A', 'Mut')], flt=('Has', 'C')), task(par=True, views=[('A', 'OptMut'), ('D', 'Ref')], flt=('Not', ('Has', 'C')))])
    # three tasks: two stages with early start candidates, same-archetype pairs in one stage
    M, Rf = 'Mut', 'Ref'
    three = [
        [task(views=[('A', M)]), task(views=[('B', M)]), task(views=[('B', M)])],
        [task(views=[('A', M)]), task(views=[('B', M)]), task(views=[('A', M)])],
        [task(views=[('A', M)]), task(views=[('B', Rf)]), task(views=[('B', M)])],
        [task(views=[('A', Rf)]), task(views=[('A', Rf), ('B', M)]), task(views=[('B', M)], flt=('Has', 'C'))],
        [task(views=[('A', M)], flt=('Has', 'C')), task(views=[('A', M)], flt=('Not', ('Has', 'C'))), task(views=[('A', M)], flt=('Has', 'D'))],
        [task(views=[('A', M)]), task(views=[('A', M)]), task(views=[('A', M)])],
        [task(views=[('A', M)]), task(views=[('B', M)]), task(views=[('C', M)])],
        [task(views=[('A', M)], entry=[('B', M)]), task(views=[('C', M)]), task(views=[('B', M)], flt=('Not', ('Has', 'A')))],
        [task(views=[('A', M)]), task(par=True, views=[('B', M)]), task(par=True, views=[('B', 'OptMut'), ('A', 'OptRef')])],
        [task(views=[('C', M)], res=[('RA', True)]), task(views=[('D', M)], res=[('RB', True)]), task(views=[('A', M)], res=[('RA', True)])],
        [task(views=[('A', M)], flt=('Has', 'B')), task(views=[('C', M)], flt=('Has', 'B')), task(views=[('C', M)], flt=('Not', ('Has', 'B')))],
        [task(views=[('A', M), ('B', Rf)]), task(views=[('C', M), ('B', Rf)]), task(views=[('B', M)], flt=('Not', ('Has', 'A')))],
    ]
    scheds += three
    four = [
        [task(views=[('A', M)]), task(views=[('B', M)]), task(views=[('C', M)]), task(views=[('D', M)])],
        [task(views=[('A', M)]), task(views=[('B', M)]), task(views=[('A', M)]), task(views=[('B', M)])],
        [task(views=[('A', M)]), task(views=[('A', M)], flt=('Not', ('Has', 'B'))), task(views=[('B', M)]), task(views=[('A', M)], flt=('Has', 'C'))],
        [task(views=[('A', M)], flt=('Has', 'C')), task(views=[('B', M)]), task(views=[('A', M)], flt=('Not', ('Has', 'C'))), task(views=[('B', M)], flt=('Has', 'D'))],
        [task(views=[('A', Rf)], res=[('RA', False)]), task(views=[('A', Rf)], res=[('RA', False)]), task(views=[('A', M)]), task(views=[('B', M)], res=[('RA', True)])],
        [task(par=True, views=[('A', M)]), task(views=[('B', M)], entry=[('C', M)]), task(par=True, views=[('C', M)], flt=('Not', ('Has', 'B'))), task(views=[('D', M)], entry=[('A', 'OptMut')])],
    ]
    scheds += four
    # independent tasks exercising every view feature (C12: must share a stage)
    O = 'OptRef'
    indep = [
        [task(views=[('A', Rf)], has_id=True), task(views=[('A', Rf)], has_id=True)],
        [task(views=[('A', Rf)]), task(views=[('A', O)], has_id=True)],
        [task(views=[('A', M)]), task(views=[('B', M)], has_id=True)],
        [task(views=[('A', M)], entry=[('C', Rf)]), task(views=[('B', M)], entry=[('C', O)], has_id=True)],
        [task(par=True, views=[('A', M)]), task(par=True, views=[('B', M)], has_id=True)],
        [task(views=[('A', O)], entry=[('A', O)]), task(views=[('A', Rf)])],
        [task(views=[('A', Rf)], entry=[('A', O)]), task(views=[('A', Rf)])],
        [task(views=[('A', O)], entry=[('A', Rf)]), task(views=[('A', O)])],
        [task(views=[('A', Rf)], entry=[('A', Rf)]), task(views=[('A', Rf)], res=[('RA', False)]), task(views=[('A', O)], res=[('RA', False)], has_id=True)],
        [task(views=[('A', M)], res=[('RA', True)]), task(views=[('B', M)], res=[('RB', True)]), task(views=[('C', M)], res=[('RC', False)], has_id=True)],
        [task(views=[('A', M)], flt=('Has', 'B')), task(views=[('C', 'OptMut')], flt=('Not', ('Has', 'B')), has_id=True), task(par=True, views=[('D', M), ('B', Rf)])],
    ]
    scheds += indep
    # ParSystems with entry views, followed by a task touching the entry-viewed component
    parent = [
        [task(par=True, views=[('B', Rf)], entry=[('A', M)]), task(views=[('A', M)])],
        [task(par=True, views=[('B', M)], entry=[('A', 'OptMut')]), task(views=[('A', Rf)], has_id=True)],
        [task(par=True, views=[('B', Rf)], entry=[('A', Rf)]), task(par=True, views=[('A', M)], entry=[('C', Rf)])],
        [task(par=True, views=[('C', M)], entry=[('A', M)]), task(par=True, views=[('D', M)], entry=[('A', O)])],
        [task(views=[('A', M)]), task(par=True, views=[('B', M)], entry=[('A', M)]), task(views=[('C', M)], entry=[('A', 'OptRef')])],
        # two next-stage tasks that can both be started early
        [task(views=[('A', M)]), task(views=[('A', M)], flt=('Has', 'B')), task(views=[('C', M)])],
        [task(views=[('A', M)], flt=('Has', 'D')), task(views=[('A', M)], flt=('Not', ('Has', 'D'))), task(views=[('A', 'OptMut'), ('B', Rf)], flt=('And', ('Not', ('Has', 'D')), ('Has', 'C'))), task(views=[('C', M)], flt=('Not', ('Has', 'A')))],
    ]
    scheds += parent
    # degenerate shapes: empty schedule, single tasks, tasks without views (resources only)
    misc = [
        [],
        [task(views=[('A', M)], has_id=True)],
        [task(par=True, views=[('A', M), ('B', 'OptRef')])],
        [task(res=[('RA', True)]), task(res=[('RB', True)])],
        [task(res=[('RA', True)]), task(res=[('RA', False)]), task(res=[('RC', True)], views=[('A', Rf)])],
        [task(par=True, res=[('RA', True)]), task(views=[('A', M)], res=[('RB', False)]), task(res=[('RA', True), ('RB', True)])],
        [task(views=[('A', M)]), task(res=[('RA', True)]), task(views=[('A', M)])],
    ]
    scheds += misc
    # a later task whose FIRST views (in registry order or as written) are unrelated to the earlier
    # task and whose conflicting view comes after them (and the mirror image): the compile-time
    # stager must look at every view of the later task, not stop at the first harmless one
    multi = []
    for u, x in (('A', 'B'), ('B', 'A')):
        for ku in VK:
            multi.append([task(views=[(x, M)]), task(views=[(u, ku), (x, M)])])
        for ku in (Rf, M):
            multi.append([task(views=[(x, M)]), task(views=[(u, ku), (x, Rf)])])
            multi.append([task(views=[(x, Rf)], has_id=True), task(views=[(x, M), (u, ku)])])
    multi += [
        [task(views=[('C', M)]), task(views=[('A', Rf), ('B', M), ('C', M), ('D', Rf)])],
        [task(views=[('B', M)]), task(views=[('A', Rf)], entry=[('B', M)])],
        [task(views=[('B', M)]), task(views=[('A', M)], entry=[('B', Rf)])],
        [task(views=[('A', M)], entry=[('C', M)]), task(par=True, views=[('B', Rf), ('C', Rf)])],
        [task(par=True, views=[('D', M)]), task(par=True, views=[('A', Rf), ('B', 'OptRef'), ('D', 'OptMut')])],
        # the same for resource views
        [task(views=[('A', M)], res=[('RB', True)]), task(views=[('B', M)], res=[('RA', False), ('RB', False)])],
        [task(views=[('A', M)], res=[('RB', True)]), task(views=[('B', M)], res=[('RA', True), ('RB', True)])],
        [task(views=[('A', M)], res=[('RB', False)]), task(views=[('B', M)], res=[('RA', False), ('RB', True)])],
        [task(views=[('A', M)], res=[('RA', True)]), task(views=[('B', M)], res=[('RA', False), ('RB', False)])],
        [task(views=[('A', M)], res=[('RB', True)]), task(views=[('B', M)], res=[('RA', False), ('RB', True)])],
        [task(views=[('A', M)], res=[('RC', True)]), task(par=True, views=[('B', M)], res=[('RB', False), ('RC', True)])],
        [task(res=[('RC', True)]), task(res=[('RA', False), ('RB', False), ('RC', False)])],
        [task(views=[('A', M)], res=[('RC', True)]), task(views=[('B', M)], res=[('RA', True), ('RC', True)]), task(views=[('C', M)], res=[('RB', False), ('RC', False)])],
    ]
    scheds += multi
    # tasks that conflict on a component AND on a resource at once (the two staging decisions are
    # merged; both say "cut")
    both = [
        [task(views=[('A', M)], res=[('RA', True)]), task(views=[('A', M)], res=[('RA', True)])],
        [task(views=[('A', M)], res=[('RA', True)]), task(views=[('A', Rf)], res=[('RA', False)], has_id=True)],
        [task(views=[('A', Rf)], res=[('RB', False)]), task(par=True, views=[('A', M)], res=[('RB', True)])],
        [task(views=[('B', Rf)], entry=[('A', M)], res=[('RB', True)]), task(views=[('A', M)], res=[('RA', False), ('RB', False)])],
        [task(views=[('A', M)], res=[('RA', True)]), task(views=[('B', M)]), task(views=[('A', M), ('B', Rf)], res=[('RA', True)])],
        [task(par=True, views=[('C', M), ('A', Rf)], res=[('RC', True)]), task(par=True, views=[('A', Rf), ('C', M)], res=[('RB', False), ('RC', True)])],
    ]
    scheds += both
    for s in scheds:
        for t in s:
            assert valid(t), t
    return scheds


def rand_task(rng):
    while True:
        k = rng.choice([1, 1, 2, 2, 3])
        cs = rng.sample(COMPS[:3] if rng.random() < 0.7 else COMPS, min(k, 3))
        views = [(c, rng.choice(VK)) for c in cs]
        entry = []
        if rng.random() < 0.3:
            ec = rng.choice(COMPS)
            entry = [(ec, rng.choice(VK))]
        res = []
        if rng.random() < 0.3:
            res = [(rng.choice(RES), rng.random() < 0.6)]
        r = rng.random()
        if r < 0.5:
            flt = ('None',)
        elif r < 0.7:
            flt = ('Has', rng.choice(COMPS))
        elif r < 0.9:
            flt = ('Not', ('Has', rng.choice(COMPS)))
        else:
            flt = rng.choice([('And', ('Has', 'C'), ('Not', ('Has', 'D'))), ('Or', ('Has', 'C'), ('Has', 'D'))])
        t = task(par=rng.random() < 0.25, views=views, has_id=rng.random() < 0.3, flt=flt, res=res, entry=entry)
        if valid(t):
            return t


def random_scheds(seed, n):
    rng = random.Random('sched-%d' % seed)
    out = []
    for _ in range(n):
        k = rng.choice([2, 3, 3, 4, 4, 5])
        out.append([rand_task(rng) for _ in range(k)])
    return out


def emit_sched(name, tasks):
    o = []
    w = o.append
    grp = groups(tasks)
    conf = [(i, j) for i in range(len(tasks)) for j in range(i + 1, len(tasks)) if conflict(tasks[i], tasks[j])]
    for i, t in enumerate(tasks):
        tn = '%s_T%d' % (name, i)
        names = ['v%d' % k for k in range(len(t['views']))]
        pat = list(names)
        if t['has_id']:
            pat.insert(len(pat) // 2, 'id')
        rpat = 'result!(%s)' % ', '.join(pat)
        rnames = ['r%d' % k for k in range(len(t['res']))]
        res_ty = lambda lt: 'Views!(%s)' % ', '.join(('&%s mut %s' % (("'" + lt) if lt else '', r) if m else '&%s %s' % (("'" + lt) if lt else '', r)) for r, m in t['res'])
        w('pub struct %s { pub st: TaskState, pub targets: Arc<Vec<Id>> }' % tn)
        trait = 'ParSystem' if t['par'] else 'System'
        w('impl %s for %s {' % (trait, tn))
        w("    type Filter = %s; type Views<'a> = %s; type ResourceViews<'a> = %s; type EntryViews<'a> = %s;" % (
            flt_ty(t['flt']), views_ty(t['views'], t['has_id'], 'a'), res_ty('a'), views_ty(t['entry'], False, 'a')))
        bound = 'ParallelIterator' if t['par'] else 'Iterator'
        w("    fn run<'a, R_, S_, I, E>(&mut self, qr: brood::query::Result<'a, R_, S_, I, Self::ResourceViews<'a>, Self::EntryViews<'a>, E>) where R_: ContainsViews<'a, Self::EntryViews<'a>, E>, I: %s<Item = Self::Views<'a>> {" % bound)
        w('        self.st.runs += 1; self.st.path = current_path();')
        w('        let result!(%s) = qr.resources;' % ', '.join(rnames))
        if rnames:
            w('        let acc_before_resources = self.st.acc;')
        for k, rn in enumerate(rnames):
            w('        %s.touch(&mut self.st, %d);' % (rn, 1001 + k))
        if rnames:
            w('        self.st.res_acc = self.st.res_acc.wrapping_add(self.st.acc.wrapping_sub(acc_before_resources));')
        salt = 'id_salt(id)' if t['has_id'] else '0u64'
        if t['par']:
            w('        let rec = ParRec { tag: self.st.tag, ..Default::default() };')
            body = 'rec.matched.fetch_add(1, std::sync::atomic::Ordering::Relaxed); let salt = %s; ' % salt
            body += ' '.join('v%d.touch_par(&rec, salt ^ %d);' % (k, k + 1) for k in range(len(t['views'])))
            w('        qr.iter.for_each(|%s| { %s });' % (rpat, body))
            w('        self.st.acc = self.st.acc.wrapping_add(rec.acc.load(std::sync::atomic::Ordering::Relaxed)); self.st.matched += rec.matched.load(std::sync::atomic::Ordering::Relaxed) as u32; self.st.accesses.extend(rec.accesses.lock().unwrap().iter().copied());')
        else:
            body = 'self.st.matched += 1; let salt = %s; ' % salt
            body += ' '.join('v%d.touch(&mut self.st, salt ^ %d);' % (k, k + 1) for k in range(len(t['views'])))
            if (sum(map(ord, name)) + i) % 3 == 0:
                # a third of the sequential bodies consume the iterator through fold (for_each)
                w('        qr.iter.for_each(|%s| { %s });' % (rpat, body))
            else:
                w('        for %s in qr.iter { %s }' % (rpat, body))
        if t['entry']:
            w('        let mut entries = qr.entries;')
            w('        let targets = self.targets.clone();')
            w('        for t in targets.iter() { if let Some(mut e) = entries.entry(*t) { let salt = id_salt(*t);')
            for k, (c, kind) in enumerate(t['entry']):
                w('            if let Some(result!(x)) = e.query(Query::<Views!(%s)>::new()) { x.touch(&mut self.st, salt ^ %d); }' % (view_ty(c, kind, ''), 11 + k))
            w('        } }')
        w('    }')
        w('}')
    sn = name
    w('pub struct %s;' % sn)
    w('static META_%s: SchedMeta = SchedMeta { name: "%s", tasks: &[%s], groups: &[%s], conflicts: &[%s] };' % (
        sn, sn, ', '.join('TaskMeta { par: %s, text: %s }' % ('true' if t['par'] else 'false', json.dumps(task_text(t))) for t in tasks),
        ', '.join('&[%s]' % ', '.join(str(i) for i in g) for g in grp), ', '.join('(%d, %d)' % c for c in conf)))
    w('impl Case for %s {' % sn)
    w('    fn meta() -> &\'static SchedMeta { &META_%s }' % sn)
    w('    fn execute(w: &mut W, targets: &[Id], exec: &Exec) -> Vec<TaskState> {')
    w('        let tg = Arc::new(targets.to_vec());')
    for i, t in enumerate(tasks):
        w('        let mut t%d = %s_T%d { st: TaskState { tag: %d, ..Default::default() }, targets: tg.clone() };' % (i, name, i, i + 1))
    w('        match exec {')
    seq = ' '.join('w.run_%ssystem(&mut t%d);' % ('par_' if t['par'] else '', i) for i, t in enumerate(tasks))
    w('            Exec::Sequential => { %s vec![%s] }' % (seq, ', '.join('t%d.st' % i for i in range(len(tasks)))))
    sched = 'schedule!(%s)' % ', '.join('task::%s(t%d)' % ('ParSystem' if t['par'] else 'System', i) for i, t in enumerate(tasks))
    pat = '_'
    for i, t in reversed(list(enumerate(tasks))):
        pat = '(task::%s(t%d), %s)' % ('ParSystem' if t['par'] else 'System', i, pat)
    w('            _ => {')
    w('                let mut s = %s;' % sched)
    w('                match exec {')
    w('                    Exec::Driven(bits) => { let d = Driver::new(*bits); with_join_driver(&d, || w.run_schedule(&mut s)); }')
    w('                    Exec::Pool(p) => { p.install(|| w.run_schedule(&mut s)); }')
    w('                    Exec::Sequential => unreachable!(),')
    w('                }')
    w('                let %s = s;' % pat)
    w('                vec![%s]' % ', '.join('t%d.st' % i for i in range(len(tasks))))
    w('            }')
    w('        }')
    w('    }')
    w('}')
    return '\n'.join(o)


HEADER = '''// @generated by gen/gen_sched.py
#![allow(unused_variables, unused_mut, unused_imports, non_camel_case_types, clippy::all)]
use std::sync::Arc;
use vsched::brood::{self, entity, query::{filter, result, Views}, system::{schedule, schedule::task, System, ParSystem}, registry::ContainsViews, Query};
use vsched::brood::verif::with_join_driver;
use vsched::rayon::iter::ParallelIterator;
use vsched::*;
'''

MAIN = '''
fn main() {
    let args: Vec<String> = std::env::args().collect();
    let arg = |n: &str| args.iter().position(|a| a == n).and_then(|i| args.get(i + 1).cloned());
    let pools = make_pools();
    match args.get(1).map(|s| s.as_str()) {
        Some("run") => {
            if arg("--prop").as_deref() == Some("C17") {
                std::panic::set_hook(Box::new(|_| {}));
            }
            let cfg = RunCfg { prop: arg("--prop").unwrap(), seed: arg("--seed").and_then(|s| s.parse().ok()).unwrap_or(1), cases: arg("--cases").and_then(|s| s.parse().ok()).unwrap_or(20), pool_digest: POOL_DIGEST.to_string() };
            let mut reports: Vec<SchedReport> = Vec::new();
%(runs)s
            std::fs::write(arg("--out").unwrap(), serde_json::to_string(&reports).unwrap()).unwrap();
        }
        Some("replay") => {
            let r: SchedReplay = serde_json::from_str(&std::fs::read_to_string(&args[2]).unwrap()).unwrap();
            let out = match r.schedule.as_str() {
%(replays)s
                _ => std::process::exit(4),
            };
            match out {
                Some(msg) => { println!("REPRODUCED property={} {}", r.property, msg); std::process::exit(1); }
                None => { println!("not reproduced"); std::process::exit(0); }
            }
        }
        _ => std::process::exit(2),
    }
}
'''

CARGO = '''[package]
name = "%(name)s"
version = "0.0.0"
edition = "2021"

[dependencies]
vsched = { path = "../../sched" }
serde_json = "1"
'''


def cost(tasks):
    return {2: 8, 3: 13, 4: 20, 5: 30, 6: 42}.get(len(tasks), 50)


def main():
    outdir, seed = sys.argv[1], int(sys.argv[2])
    nrand = int(sys.argv[sys.argv.index('--random') + 1]) if '--random' in sys.argv else 0
    nbins = int(sys.argv[sys.argv.index('--bins') + 1]) if '--bins' in sys.argv else 16
    prefix = sys.argv[sys.argv.index('--prefix') + 1] if '--prefix' in sys.argv else 'sb'
    scheds = [] if '--no-systematic' in sys.argv else systematic()
    scheds += random_scheds(seed, nrand)
    named = [('%s_S%03d' % (prefix.upper(), i), s) for i, s in enumerate(scheds)]
    # balance bins by estimated compile cost (longest first)
    bins = [[] for _ in range(nbins)]
    load = [0] * nbins
    for name, s in sorted(named, key=lambda x: -cost(x[1])):
        b = load.index(min(load))
        bins[b].append((name, s))
        load[b] += cost(s)
    index = {}
    members = []
    for b, items in enumerate(bins):
        if not items:
            continue
        bname = '%s%02d' % (prefix, b)
        members.append(bname)
        d = os.path.join(outdir, bname)
        os.makedirs(os.path.join(d, 'src'), exist_ok=True)
        body = '\n'.join(emit_sched(n, s) for n, s in sorted(items))
        runs = '\n'.join('            reports.push(run_schedule_cases::<%s>(&cfg, &pools));' % n for n, _ in sorted(items))
        replays = '\n'.join('                "%s" => replay_case::<%s>(&r, &pools),' % (n, n) for n, _ in sorted(items))
        src = HEADER + body + MAIN % dict(runs=runs, replays=replays)
        digest = hashlib.sha256(src.encode()).hexdigest()[:16]
        src += '\nconst POOL_DIGEST: &str = "%s";\n' % digest
        for n, s in items:
            index[n] = dict(bin=bname, tasks=[task_text(t) for t in s], groups=groups(s))
        for path, text in ((os.path.join(d, 'src', 'main.rs'), src), (os.path.join(d, 'Cargo.toml'), CARGO % dict(name=bname))):
            try:
                old = open(path).read()
            except OSError:
                old = None
            if old != text:
                open(path, 'w').write(text)
    json.dump(dict(bins=members, schedules=index), open(os.path.join(outdir, prefix + 'index.json'), 'w'), indent=1, sort_keys=True)
    print('%d schedules in %d bins, estimated cost %s' % (len(named), len(members), load))


if __name__ == '__main__':
    main()
