#!/bin/sh
# Regenerate the committed (quick-tier) type pools. Output is a pure function of the arguments.
set -e
cd "$(dirname "$0")/.."
python3 gen/gen_reg.py r0 0 harness/regs/r0/src/gen.rs --queries 6 --entries 4
python3 gen/gen_reg.py r1 0 harness/regs/r1/src/gen.rs --queries 6 --entries 4
python3 gen/gen_reg.py r6 0 harness/regs/r6/src/gen.rs --queries 40 --entries 30
python3 gen/gen_reg.py r8 0 harness/regs/r8/src/gen.rs --queries 20 --entries 12
python3 gen/gen_reg.py r10 0 harness/regs/r10/src/gen.rs --queries 24 --entries 16
python3 gen/gen_reg.py r9 0 harness/regs/r9/src/gen.rs --queries 24 --entries 14
python3 gen/gen_reg.py p6a 0 harness/regs/p6a/src/gen.rs --queries 12 --entries 0
python3 gen/gen_reg.py p6b 0 harness/regs/p6b/src/gen.rs --queries 12 --entries 0
python3 gen/gen_reg.py p6c 0 harness/regs/p6c/src/gen.rs --queries 12 --entries 0
python3 gen/gen_reg.py p10 0 harness/regs/p10/src/gen.rs --queries 12 --entries 0
python3 gen/gen_reg.py p1 0 harness/regs/p1/src/gen.rs --queries 4 --entries 0
# committed default of the seed-derived (thorough) pools; ./verif <id> thorough regenerates them from VERIF_SEED
python3 gen/gen_reg.py t6 0 harness/regs/t6/src/gen.rs --queries 70 --entries 40
python3 gen/gen_reg.py t10 0 harness/regs/t10/src/gen.rs --queries 50 --entries 30
