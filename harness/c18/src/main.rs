//! C18: run-time safety preconditions at the safe API boundary.
//!
//! Exhaustive part: every registry of length 2..9 with one pair of positions holding the same
//! type (and the duplicate-free twin of each length) through `new`, `with_resources`, `default`,
//! deserialization from JSON and from a token stream: the constructor must panic iff the
//! registry has a duplicate. Every tuple of column lengths in {0,1,2,3}^n for n = 1..4 through
//! `Batch::new`: must panic iff the lengths differ; an accepted batch is extended into a world
//! whose bookkeeping is audited. Generated part: larger column lengths (proptest).

use brood::{entities, entities::Batch, entity, query::{result, Views}, resources, Query, Registry, Resources, World};
use proptest::prelude::*;
use proptest::test_runner::{Config as PtConfig, RngSeed, TestCaseError, TestError, TestRunner};
use serde::{Deserialize, Serialize};
use std::panic::{catch_unwind, AssertUnwindSafe};

mod gen;

#[derive(Clone, Debug, Serialize, Deserialize, PartialEq)]
pub struct K<const N: u8>(pub u32);

#[derive(Clone, Debug, Default, Serialize, Deserialize, PartialEq)]
pub struct Res0(pub u32);

pub struct RegCase {
    pub len: usize,
    pub dup: Option<(usize, usize)>,
    pub text: &'static str,
    /// per constructor: Some(true) = panicked, Some(false) = returned a world, None = returned an error
    pub outcomes: Vec<(&'static str, Option<bool>)>,
}

pub fn ctor_outcomes<R>() -> Vec<(&'static str, Option<bool>)>
where
    R: brood::registry::Registry + for<'de> brood::registry::Deserialize<'de> + brood::registry::Serialize + 'static,
{
    let mut out = Vec::new();
    let p = |f: &mut dyn FnMut()| catch_unwind(AssertUnwindSafe(|| f())).is_err();
    out.push(("new", Some(p(&mut || drop(World::<R>::new())))));
    out.push(("with_resources", Some(p(&mut || drop(World::<R, Resources!(Res0)>::with_resources(resources!(Res0(1))))))));
    out.push(("default", Some(p(&mut || drop(World::<R, Resources!(Res0)>::default())))));
    // serialized empty world (registry independent)
    let json = "[[],{\"length\":0,\"free\":[]},[]]";
    let mut res: Option<bool> = None;
    let panicked = p(&mut || {
        let mut de = serde_json::Deserializer::from_str(json);
        res = Some(World::<R, Resources!()>::deserialize(&mut de).is_ok());
    });
    out.push(("deserialize-json", if panicked { Some(true) } else if res == Some(true) { Some(false) } else { None }));
    use serde_assert::Token;
    for (name, hr) in [("deserialize-tokens-human-readable", true), ("deserialize-tokens-compact", false)] {
        let tokens = serde_assert::Tokens(vec![
            Token::Tuple { len: 3 },
            Token::Seq { len: Some(0) },
            Token::SeqEnd,
            Token::Struct { name: "Allocator", len: 2 },
            Token::Field("length"),
            Token::U64(0),
            Token::Field("free"),
            Token::Seq { len: Some(0) },
            Token::SeqEnd,
            Token::StructEnd,
            Token::Tuple { len: 0 },
            Token::TupleEnd,
            Token::TupleEnd,
        ]);
        let mut res: Option<bool> = None;
        let panicked = p(&mut || {
            let mut de = serde_assert::Deserializer::builder().tokens(tokens.clone()).is_human_readable(hr).build();
            res = Some(World::<R, Resources!()>::deserialize(&mut de).is_ok());
        });
        out.push((name, if panicked { Some(true) } else if res == Some(true) { Some(false) } else { None }));
    }
    out
}

type R4 = Registry!(K<0>, K<1>, K<2>, K<3>);

fn col<const N: u8>(n: usize) -> Vec<K<N>> {
    (0..n).map(|i| K::<N>(i as u32)).collect()
}

/// Build a batch with the given column lengths through the safe constructor and extend a world
/// with it. Returns Err(description) on a violation.
fn batch_case(lens: &[usize]) -> Result<bool, String> {
    let equal = lens.windows(2).all(|w| w[0] == w[1]);
    let mut world = World::<R4>::new();
    let before = world.len();
    let r = catch_unwind(AssertUnwindSafe(|| match lens.len() {
        1 => world.extend(Batch::new((col::<0>(lens[0]), entities::Null))),
        2 => world.extend(Batch::new((col::<0>(lens[0]), (col::<1>(lens[1]), entities::Null)))),
        3 => world.extend(Batch::new((col::<2>(lens[0]), (col::<0>(lens[1]), (col::<1>(lens[2]), entities::Null))))),
        _ => world.extend(Batch::new((col::<3>(lens[0]), (col::<1>(lens[1]), (col::<0>(lens[2]), (col::<2>(lens[3]), entities::Null)))))),
    }));
    match r {
        Err(_) if !equal => {
            if world.len() != before {
                return Err(format!("Batch::new panicked for column lengths {lens:?} but the world changed"));
            }
            Ok(true)
        }
        Err(_) => Err(format!("Batch::new / extend panicked for equal column lengths {lens:?}")),
        Ok(ids) if equal => {
            let n = lens[0];
            if ids.len() != n || world.len() != n {
                return Err(format!("batch with column lengths {lens:?}: {} identifiers, len() = {}", ids.len(), world.len()));
            }
            let d = world.verif_dump();
            for a in &d.archetypes {
                if a.entity_identifiers.len() != a.length || a.columns.iter().any(|c| c.1 < a.length) {
                    return Err(format!("batch with column lengths {lens:?} stored ragged columns: {a:?}"));
                }
            }
            let rows = world.query(Query::<Views!(entity::Identifier)>::new()).iter.count();
            if rows != n {
                return Err(format!("batch with column lengths {lens:?}: {rows} rows stored"));
            }
            Ok(false)
        }
        Ok(ids) => Err(format!("a batch with ragged column lengths {lens:?} was accepted by the safe constructor and extend stored {} entities", ids.len())),
    }
}

/// `entities!((..); n)` with a count expression that has a side effect: the macro is a safe way to
/// build a batch, so all columns must get the same length whatever the expression does.
fn macro_count_case(columns: usize, start: usize) -> Result<(), String> {
    let mut world = World::<R4>::new();
    let calls = std::cell::Cell::new(0usize);
    let next = || {
        calls.set(calls.get() + 1);
        start + calls.get() - 1
    };
    let r = catch_unwind(AssertUnwindSafe(|| match columns {
        1 => world.extend(entities!((K::<0>(1)); next())),
        2 => world.extend(entities!((K::<0>(1), K::<1>(2)); next())),
        3 => world.extend(entities!((K::<2>(1), K::<0>(2), K::<1>(3)); next())),
        _ => world.extend(entities!((K::<3>(1), K::<1>(2), K::<0>(3), K::<2>(4)); next())),
    }));
    let ids = match r {
        Ok(ids) => ids,
        Err(_) => return Ok(()), // refusing the batch by panicking is within the property
    };
    let d = world.verif_dump();
    let rows = world.query(Query::<Views!(entity::Identifier)>::new()).iter.count();
    if calls.get() != 1 || ids.len() != start || rows != start || d.archetypes.iter().any(|a| a.entity_identifiers.len() != a.length) {
        return Err(format!(
            "entities!((..{columns} components..); n) with a side-effecting count expression (values {start}, {}, ...) evaluated the expression {} times: the safe macro built a batch with columns of different lengths; extend returned {} identifiers, {rows} rows are stored",
            start + 1,
            calls.get(),
            ids.len()
        ));
    }
    Ok(())
}

fn main() {
    let args: Vec<String> = std::env::args().collect();
    let arg = |n: &str| args.iter().position(|a| a == n).and_then(|i| args.get(i + 1).cloned());
    std::panic::set_hook(Box::new(|_| {}));
    if args.get(1).map(|s| s.as_str()) == Some("replay-macro") {
        let v: Vec<usize> = serde_json::from_str(&args[2]).unwrap();
        match macro_count_case(v[0], v[1]) {
            Err(e) => {
                println!("REPRODUCED property=C18 {e}");
                std::process::exit(1);
            }
            Ok(_) => std::process::exit(0),
        }
    }
    if args.get(1).map(|s| s.as_str()) == Some("replay-batch") {
        let lens: Vec<usize> = serde_json::from_str(&args[2]).unwrap();
        match batch_case(&lens) {
            Err(e) => {
                println!("REPRODUCED property=C18 {e}");
                std::process::exit(1);
            }
            Ok(_) => std::process::exit(0),
        }
    }
    let seed: u64 = arg("--seed").and_then(|s| s.parse().ok()).unwrap_or(1);
    let cases: u32 = arg("--cases").and_then(|s| s.parse().ok()).unwrap_or(2000);
    let out = arg("--out").unwrap();
    let mut violations: Vec<serde_json::Value> = Vec::new();
    let mut evaluations = 0u64;
    let mut nontrivial = 0u64;
    let mut samples = Vec::new();
    // registries
    let regs = gen::all_registries();
    for r in &regs {
        for (ctor, outcome) in &r.outcomes {
            evaluations += 1;
            let want_panic = r.dup.is_some();
            if want_panic {
                nontrivial += 1;
            }
            let ok = match outcome {
                Some(p) => *p == want_panic,
                None => false,
            };
            if !ok {
                violations.push(serde_json::json!({"kind": "registry", "registry": r.text, "duplicate_positions": r.dup, "constructor": ctor,
                    "failure": format!("{ctor} for {} {}", r.text, match outcome { Some(true) => "panicked although the registry has no duplicate", Some(false) => "returned a world although the registry lists one component type twice", None => "returned an error for a valid empty serialization" })}));
            }
        }
    }
    samples.push(serde_json::json!({"registry": regs[5].text, "duplicate_positions": regs[5].dup, "outcomes": regs[5].outcomes.iter().map(|(c, o)| (c.to_string(), format!("{o:?}"))).collect::<Vec<_>>()}));
    // batches, exhaustive over {0,1,2,3}^n
    let mut batch_exhaustive = 0;
    for n in 1..=4usize {
        let mut lens = vec![0usize; n];
        loop {
            evaluations += 1;
            batch_exhaustive += 1;
            match batch_case(&lens) {
                Ok(ragged) => {
                    if ragged {
                        nontrivial += 1;
                    }
                }
                Err(e) => violations.push(serde_json::json!({"kind": "batch", "lens": lens, "failure": e})),
            }
            let mut i = 0;
            loop {
                if i == n {
                    break;
                }
                lens[i] += 1;
                if lens[i] < 4 {
                    break;
                }
                lens[i] = 0;
                i += 1;
            }
            if i == n {
                break;
            }
        }
    }
    samples.push(serde_json::json!({"batch_column_lengths": [2, 3, 2], "expect": "Batch::new panics"}));
    // the safe macro with a side-effecting count expression
    let mut macro_cases = 0;
    for columns in 1..=4usize {
        for start in 0..4usize {
            evaluations += 1;
            macro_cases += 1;
            if columns >= 2 {
                nontrivial += 1;
            }
            if let Err(e) = macro_count_case(columns, start) {
                violations.push(serde_json::json!({"kind": "macro", "columns": columns, "start": start, "failure": e}));
            }
        }
    }
    samples.push(serde_json::json!({"macro": "entities!((K0, K1); { calls += 1; 1 + calls })", "expect": "one evaluation, equal column lengths"}));
    // generated larger lengths
    let mut runner = TestRunner::new_with_rng(
        PtConfig { cases, failure_persistence: None, rng_seed: RngSeed::Fixed(seed), ..PtConfig::default() },
        proptest::test_runner::TestRng::from_seed(proptest::test_runner::RngAlgorithm::ChaCha, &[(seed % 251) as u8 + 1; 32]),
    );
    let strat = prop::collection::vec(prop_oneof![3 => 0usize..6, 2 => 6usize..80, 1 => Just(17usize), 1 => Just(64usize)], 1..=4);
    let generated = std::cell::Cell::new(0u64);
    let ragged_seen = std::cell::Cell::new(0u64);
    let result = runner.run(&strat, |lens| {
        generated.set(generated.get() + 1);
        match batch_case(&lens) {
            Ok(r) => {
                if r {
                    ragged_seen.set(ragged_seen.get() + 1);
                }
                Ok(())
            }
            Err(e) => Err(TestCaseError::fail(e)),
        }
    });
    evaluations += generated.get();
    nontrivial += ragged_seen.get();
    if let Err(TestError::Fail(reason, lens)) = result {
        violations.push(serde_json::json!({"kind": "batch", "lens": lens, "failure": reason.to_string()}));
    }
    let report = serde_json::json!({
        "evaluations": evaluations, "distinct_nontrivial": nontrivial, "registry_types": regs.len(), "constructors_per_registry": regs[0].outcomes.len(),
        "batch_length_tuples_exhaustive": batch_exhaustive, "batch_length_tuples_generated": generated.get(), "macro_count_cases": macro_cases, "samples": samples, "violations": violations,
    });
    std::fs::write(out, serde_json::to_string_pretty(&report).unwrap()).unwrap();
}
