//! Component kinds. All are `Clone + PartialEq + Debug + Serialize + Deserialize + Send + Sync`
//! with a reporting `Drop`. Equality and serialization cover the *payload* only; `Clone` and
//! `Deserialize` mint fresh serials.

use crate::ledger::{self, Callback, Kind};
use serde::{Deserialize, Deserializer, Serialize, Serializer};
use std::fmt;

/// What the harness observes about a stored value.
#[derive(Clone, Copy, Debug, PartialEq, Eq, Hash, Serialize, Deserialize)]
pub struct Obs {
    pub payload: u32,
    /// 0 for serial-less kinds
    pub serial: u64,
    /// self-check passed (tag, ledger type, derived data)
    pub ok: bool,
    pub addr: usize,
}

pub trait Comp:
    Clone + PartialEq + fmt::Debug + Serialize + for<'de> Deserialize<'de> + Send + Sync + 'static
{
    const KIND: Kind;
    const N: u8;
    const HAS_SERIAL: bool;
    fn make(p: u32) -> Self;
    /// The payload as stored by this kind for a requested `p`.
    fn norm(p: u32) -> u32;
    fn obs(&self) -> Obs;
    /// Overwrite the payload in place (identity is kept).
    fn set(&mut self, p: u32);
}

// ---------------------------------------------------------------------------------------------
// Tiny: one byte
// ---------------------------------------------------------------------------------------------
pub struct Tiny<const N: u8>(u8);

impl<const N: u8> Comp for Tiny<N> {
    const KIND: Kind = Kind::Tiny;
    const N: u8 = N;
    const HAS_SERIAL: bool = false;
    fn make(p: u32) -> Self {
        ledger::count_up(Kind::Tiny, N);
        Tiny(p as u8)
    }
    fn norm(p: u32) -> u32 {
        p & 0xff
    }
    fn obs(&self) -> Obs {
        Obs { payload: self.0 as u32, serial: 0, ok: true, addr: self as *const _ as usize }
    }
    fn set(&mut self, p: u32) {
        self.0 = p as u8;
    }
}
impl<const N: u8> Clone for Tiny<N> {
    fn clone(&self) -> Self {
        ledger::tick(Callback::Clone);
        ledger::count_up(Kind::Tiny, N);
        Tiny(self.0)
    }
}
impl<const N: u8> Drop for Tiny<N> {
    fn drop(&mut self) {
        ledger::count_down(Kind::Tiny, N);
        ledger::tick(Callback::Drop);
    }
}
impl<const N: u8> PartialEq for Tiny<N> {
    fn eq(&self, o: &Self) -> bool {
        ledger::tick(Callback::Eq);
        self.0 == o.0
    }
}
impl<const N: u8> fmt::Debug for Tiny<N> {
    fn fmt(&self, f: &mut fmt::Formatter<'_>) -> fmt::Result {
        ledger::tick(Callback::Fmt);
        write!(f, "Tiny<{}>({})", N, self.0)
    }
}
impl<const N: u8> Serialize for Tiny<N> {
    fn serialize<S: Serializer>(&self, s: S) -> Result<S::Ok, S::Error> {
        ledger::tick(Callback::Ser);
        s.serialize_u8(self.0)
    }
}
impl<'de, const N: u8> Deserialize<'de> for Tiny<N> {
    fn deserialize<D: Deserializer<'de>>(d: D) -> Result<Self, D::Error> {
        ledger::tick(Callback::De);
        let v = u8::deserialize(d)?;
        ledger::count_up(Kind::Tiny, N);
        Ok(Tiny(v))
    }
}

// ---------------------------------------------------------------------------------------------
// Word: 8 bytes, align 4
// ---------------------------------------------------------------------------------------------
pub struct Word<const N: u8> {
    serial: u32,
    val: u32,
}

impl<const N: u8> Comp for Word<N> {
    const KIND: Kind = Kind::Word;
    const N: u8 = N;
    const HAS_SERIAL: bool = true;
    fn make(p: u32) -> Self {
        Word { serial: ledger::new_serial(Kind::Word, N) as u32, val: p }
    }
    fn norm(p: u32) -> u32 {
        p
    }
    fn obs(&self) -> Obs {
        Obs {
            payload: self.val,
            serial: self.serial as u64,
            ok: ledger::is_live(Kind::Word, N, self.serial as u64),
            addr: self as *const _ as usize,
        }
    }
    fn set(&mut self, p: u32) {
        self.val = p;
    }
}
impl<const N: u8> Clone for Word<N> {
    fn clone(&self) -> Self {
        ledger::tick(Callback::Clone);
        Word { serial: ledger::new_serial(Kind::Word, N) as u32, val: self.val }
    }
}
impl<const N: u8> Drop for Word<N> {
    fn drop(&mut self) {
        ledger::drop_serial(Kind::Word, N, self.serial as u64);
        ledger::tick(Callback::Drop);
    }
}
impl<const N: u8> PartialEq for Word<N> {
    fn eq(&self, o: &Self) -> bool {
        ledger::tick(Callback::Eq);
        self.val == o.val
    }
}
impl<const N: u8> fmt::Debug for Word<N> {
    fn fmt(&self, f: &mut fmt::Formatter<'_>) -> fmt::Result {
        ledger::tick(Callback::Fmt);
        write!(f, "Word<{}>({})", N, self.val)
    }
}
impl<const N: u8> Serialize for Word<N> {
    fn serialize<S: Serializer>(&self, s: S) -> Result<S::Ok, S::Error> {
        ledger::tick(Callback::Ser);
        s.serialize_u32(self.val)
    }
}
impl<'de, const N: u8> Deserialize<'de> for Word<N> {
    fn deserialize<D: Deserializer<'de>>(d: D) -> Result<Self, D::Error> {
        ledger::tick(Callback::De);
        let v = u32::deserialize(d)?;
        Ok(Word { serial: ledger::new_serial(Kind::Word, N) as u32, val: v })
    }
}

// ---------------------------------------------------------------------------------------------
// Heap: owns a heap allocation whose contents are a function of the payload
// ---------------------------------------------------------------------------------------------
pub struct Heap<const N: u8> {
    serial: u64,
    p: u32,
    data: Box<[u64]>,
}

fn heap_data(p: u32) -> Box<[u64]> {
    // Memory owned by a component value is the value's, not the library's: keep it out of the
    // leak accounting of the column store.
    crate::talloc::untracked(|| {
        let len = (p % 4) as usize + 1;
        (0..len).map(|i| (p as u64).wrapping_mul(0x9E37_79B9_7F4A_7C15).wrapping_add(i as u64)).collect()
    })
}

impl<const N: u8> Comp for Heap<N> {
    const KIND: Kind = Kind::Heap;
    const N: u8 = N;
    const HAS_SERIAL: bool = true;
    fn make(p: u32) -> Self {
        Heap { serial: ledger::new_serial(Kind::Heap, N), p, data: heap_data(p) }
    }
    fn norm(p: u32) -> u32 {
        p
    }
    fn obs(&self) -> Obs {
        let live = ledger::is_live(Kind::Heap, N, self.serial);
        // Only look at the heap data when the serial is live: otherwise the pointer is garbage.
        let ok = live && *self.data == *heap_data(self.p);
        Obs { payload: self.p, serial: self.serial, ok, addr: self as *const _ as usize }
    }
    fn set(&mut self, p: u32) {
        self.p = p;
        self.data = heap_data(p);
    }
}
impl<const N: u8> Clone for Heap<N> {
    fn clone(&self) -> Self {
        ledger::tick(Callback::Clone);
        Heap { serial: ledger::new_serial(Kind::Heap, N), p: self.p, data: crate::talloc::untracked(|| self.data.clone()) }
    }
}
impl<const N: u8> Drop for Heap<N> {
    fn drop(&mut self) {
        let live = ledger::is_live(Kind::Heap, N, self.serial);
        ledger::drop_serial(Kind::Heap, N, self.serial);
        if !live {
            // The box pointer is garbage or already freed: do not free it again (the error has
            // been recorded); leak instead so that the process survives to report it.
            let data = std::mem::replace(&mut self.data, Box::new([]));
            std::mem::forget(data);
        }
        ledger::tick(Callback::Drop);
    }
}
impl<const N: u8> PartialEq for Heap<N> {
    fn eq(&self, o: &Self) -> bool {
        ledger::tick(Callback::Eq);
        self.p == o.p
    }
}
impl<const N: u8> fmt::Debug for Heap<N> {
    fn fmt(&self, f: &mut fmt::Formatter<'_>) -> fmt::Result {
        ledger::tick(Callback::Fmt);
        write!(f, "Heap<{}>({})", N, self.p)
    }
}
impl<const N: u8> Serialize for Heap<N> {
    fn serialize<S: Serializer>(&self, s: S) -> Result<S::Ok, S::Error> {
        ledger::tick(Callback::Ser);
        s.serialize_str(&format!("h{}", self.p))
    }
}
impl<'de, const N: u8> Deserialize<'de> for Heap<N> {
    fn deserialize<D: Deserializer<'de>>(d: D) -> Result<Self, D::Error> {
        ledger::tick(Callback::De);
        let s = String::deserialize(d)?;
        let p: u32 = s
            .strip_prefix('h')
            .and_then(|x| x.parse().ok())
            .ok_or_else(|| serde::de::Error::custom("bad Heap payload"))?;
        Ok(Heap { serial: ledger::new_serial(Kind::Heap, N), p, data: heap_data(p) })
    }
}

// ---------------------------------------------------------------------------------------------
// Zst
// ---------------------------------------------------------------------------------------------
pub struct Zst<const N: u8>;

impl<const N: u8> Comp for Zst<N> {
    const KIND: Kind = Kind::Zst;
    const N: u8 = N;
    const HAS_SERIAL: bool = false;
    fn make(_p: u32) -> Self {
        ledger::count_up(Kind::Zst, N);
        Zst
    }
    fn norm(_p: u32) -> u32 {
        0
    }
    fn obs(&self) -> Obs {
        Obs { payload: 0, serial: 0, ok: true, addr: self as *const _ as usize }
    }
    fn set(&mut self, _p: u32) {}
}
impl<const N: u8> Clone for Zst<N> {
    fn clone(&self) -> Self {
        ledger::tick(Callback::Clone);
        ledger::count_up(Kind::Zst, N);
        Zst
    }
}
impl<const N: u8> Drop for Zst<N> {
    fn drop(&mut self) {
        ledger::count_down(Kind::Zst, N);
        ledger::tick(Callback::Drop);
    }
}
impl<const N: u8> PartialEq for Zst<N> {
    fn eq(&self, _o: &Self) -> bool {
        ledger::tick(Callback::Eq);
        true
    }
}
impl<const N: u8> fmt::Debug for Zst<N> {
    fn fmt(&self, f: &mut fmt::Formatter<'_>) -> fmt::Result {
        ledger::tick(Callback::Fmt);
        write!(f, "Zst<{}>", N)
    }
}
impl<const N: u8> Serialize for Zst<N> {
    fn serialize<S: Serializer>(&self, s: S) -> Result<S::Ok, S::Error> {
        ledger::tick(Callback::Ser);
        s.serialize_unit()
    }
}
impl<'de, const N: u8> Deserialize<'de> for Zst<N> {
    fn deserialize<D: Deserializer<'de>>(d: D) -> Result<Self, D::Error> {
        ledger::tick(Callback::De);
        <()>::deserialize(d)?;
        ledger::count_up(Kind::Zst, N);
        Ok(Zst)
    }
}

// ---------------------------------------------------------------------------------------------
// Wide: over-aligned
// ---------------------------------------------------------------------------------------------
#[repr(align(32))]
pub struct Wide<const N: u8> {
    tag: u64,
    serial: u64,
    p: u32,
}

const WIDE_TAG: u64 = 0x5749_4445_5f5f_0000;

impl<const N: u8> Comp for Wide<N> {
    const KIND: Kind = Kind::Wide;
    const N: u8 = N;
    const HAS_SERIAL: bool = true;
    fn make(p: u32) -> Self {
        Wide { tag: WIDE_TAG | N as u64, serial: ledger::new_serial(Kind::Wide, N), p }
    }
    fn norm(p: u32) -> u32 {
        p
    }
    fn obs(&self) -> Obs {
        let addr = self as *const _ as usize;
        let ok = self.tag == (WIDE_TAG | N as u64)
            && ledger::is_live(Kind::Wide, N, self.serial)
            && addr % 32 == 0;
        Obs { payload: self.p, serial: self.serial, ok, addr }
    }
    fn set(&mut self, p: u32) {
        self.p = p;
    }
}
impl<const N: u8> Clone for Wide<N> {
    fn clone(&self) -> Self {
        ledger::tick(Callback::Clone);
        Wide { tag: self.tag, serial: ledger::new_serial(Kind::Wide, N), p: self.p }
    }
}
impl<const N: u8> Drop for Wide<N> {
    fn drop(&mut self) {
        ledger::drop_serial(Kind::Wide, N, self.serial);
        ledger::tick(Callback::Drop);
    }
}
impl<const N: u8> PartialEq for Wide<N> {
    fn eq(&self, o: &Self) -> bool {
        ledger::tick(Callback::Eq);
        self.p == o.p
    }
}
impl<const N: u8> fmt::Debug for Wide<N> {
    fn fmt(&self, f: &mut fmt::Formatter<'_>) -> fmt::Result {
        ledger::tick(Callback::Fmt);
        write!(f, "Wide<{}>({})", N, self.p)
    }
}
impl<const N: u8> Serialize for Wide<N> {
    fn serialize<S: Serializer>(&self, s: S) -> Result<S::Ok, S::Error> {
        ledger::tick(Callback::Ser);
        s.serialize_u64(self.p as u64)
    }
}
impl<'de, const N: u8> Deserialize<'de> for Wide<N> {
    fn deserialize<D: Deserializer<'de>>(d: D) -> Result<Self, D::Error> {
        ledger::tick(Callback::De);
        let v = u64::deserialize(d)?;
        let p = u32::try_from(v).map_err(|_| serde::de::Error::custom("bad Wide payload"))?;
        Ok(Wide { tag: WIDE_TAG | N as u64, serial: ledger::new_serial(Kind::Wide, N), p })
    }
}

// ---------------------------------------------------------------------------------------------
// Odd: size 3, align 1
// ---------------------------------------------------------------------------------------------
pub struct Odd<const N: u8>([u8; 3]);

impl<const N: u8> Comp for Odd<N> {
    const KIND: Kind = Kind::Odd;
    const N: u8 = N;
    const HAS_SERIAL: bool = false;
    fn make(p: u32) -> Self {
        Odd([p as u8, (p >> 8) as u8, (p >> 16) as u8])
    }
    fn norm(p: u32) -> u32 {
        p & 0xff_ffff
    }
    fn obs(&self) -> Obs {
        Obs {
            payload: self.0[0] as u32 | (self.0[1] as u32) << 8 | (self.0[2] as u32) << 16,
            serial: 0,
            ok: true,
            addr: self as *const _ as usize,
        }
    }
    fn set(&mut self, p: u32) {
        self.0 = [p as u8, (p >> 8) as u8, (p >> 16) as u8];
    }
}
impl<const N: u8> Clone for Odd<N> {
    fn clone(&self) -> Self {
        ledger::tick(Callback::Clone);
        Odd(self.0)
    }
}
// `Odd` is the one kind WITHOUT a `Drop` implementation: plain data, `needs_drop::<Odd<N>>()` is
// false, so fast paths for types without drop glue (in the library or in `Vec`) are exercised.
// Consequently its values are not counted in the ledger.
impl<const N: u8> PartialEq for Odd<N> {
    fn eq(&self, o: &Self) -> bool {
        ledger::tick(Callback::Eq);
        self.0 == o.0
    }
}
impl<const N: u8> fmt::Debug for Odd<N> {
    fn fmt(&self, f: &mut fmt::Formatter<'_>) -> fmt::Result {
        ledger::tick(Callback::Fmt);
        write!(f, "Odd<{}>({:?})", N, self.0)
    }
}
impl<const N: u8> Serialize for Odd<N> {
    fn serialize<S: Serializer>(&self, s: S) -> Result<S::Ok, S::Error> {
        ledger::tick(Callback::Ser);
        s.serialize_i32(-(self.obs().payload as i32) - 1)
    }
}
impl<'de, const N: u8> Deserialize<'de> for Odd<N> {
    fn deserialize<D: Deserializer<'de>>(d: D) -> Result<Self, D::Error> {
        ledger::tick(Callback::De);
        let v = i32::deserialize(d)?;
        if v >= 0 || v < -(1 << 24) {
            return Err(serde::de::Error::custom("bad Odd payload"));
        }
        let p = (-(v + 1)) as u32;
        Ok(Odd([p as u8, (p >> 8) as u8, (p >> 16) as u8]))
    }
}

// ---------------------------------------------------------------------------------------------
// Resources: four fixed kinds, distinguished by const parameter as well.
// ---------------------------------------------------------------------------------------------

/// A resource with identity; `K` selects the representation: 0 = u64, 1 = String, 2 = zero-sized,
/// 3 = over-aligned.
pub trait Resource:
    Clone + PartialEq + fmt::Debug + Serialize + for<'de> Deserialize<'de> + Send + Sync + 'static
{
    fn make(p: u32) -> Self;
    fn norm(p: u32) -> u32;
    fn obs(&self) -> Obs;
    fn set(&mut self, p: u32);
}

macro_rules! resource_common {
    ($name:ident) => {
        impl<const N: u8> Clone for $name<N> {
            fn clone(&self) -> Self {
                ledger::tick(Callback::Clone);
                <Self as Resource>::make(self.obs().payload)
            }
        }
        impl<const N: u8> PartialEq for $name<N> {
            fn eq(&self, o: &Self) -> bool {
                ledger::tick(Callback::Eq);
                self.obs().payload == o.obs().payload
            }
        }
        impl<const N: u8> fmt::Debug for $name<N> {
            fn fmt(&self, f: &mut fmt::Formatter<'_>) -> fmt::Result {
                ledger::tick(Callback::Fmt);
                write!(f, "{}<{}>({})", stringify!($name), N, self.obs().payload)
            }
        }
        impl<const N: u8> Serialize for $name<N> {
            fn serialize<S: Serializer>(&self, s: S) -> Result<S::Ok, S::Error> {
                ledger::tick(Callback::Ser);
                s.serialize_u32(self.obs().payload)
            }
        }
        impl<'de, const N: u8> Deserialize<'de> for $name<N> {
            fn deserialize<D: Deserializer<'de>>(d: D) -> Result<Self, D::Error> {
                ledger::tick(Callback::De);
                let v = u32::deserialize(d)?;
                if v != <Self as Resource>::norm(v) {
                    return Err(serde::de::Error::custom("bad resource payload"));
                }
                Ok(<Self as Resource>::make(v))
            }
        }
    };
}

/// u64-like resource with a serial.
pub struct ResNum<const N: u8> {
    serial: u64,
    p: u32,
}
impl<const N: u8> Resource for ResNum<N> {
    fn make(p: u32) -> Self {
        ResNum { serial: ledger::new_serial(Kind::Res, N), p }
    }
    fn norm(p: u32) -> u32 {
        p
    }
    fn obs(&self) -> Obs {
        Obs {
            payload: self.p,
            serial: self.serial,
            ok: ledger::is_live(Kind::Res, N, self.serial),
            addr: self as *const _ as usize,
        }
    }
    fn set(&mut self, p: u32) {
        self.p = p;
    }
}
impl<const N: u8> Drop for ResNum<N> {
    fn drop(&mut self) {
        ledger::drop_serial(Kind::Res, N, self.serial);
        ledger::tick(Callback::Drop);
    }
}
resource_common!(ResNum);

/// String-owning resource.
pub struct ResStr<const N: u8> {
    serial: u64,
    s: String,
}
impl<const N: u8> Resource for ResStr<N> {
    fn make(p: u32) -> Self {
        ResStr { serial: ledger::new_serial(Kind::Res, N), s: crate::talloc::untracked(|| format!("r{p}")) }
    }
    fn norm(p: u32) -> u32 {
        p
    }
    fn obs(&self) -> Obs {
        let live = ledger::is_live(Kind::Res, N, self.serial);
        let payload = if live { self.s.strip_prefix('r').and_then(|x| x.parse().ok()) } else { None };
        Obs {
            payload: payload.unwrap_or(u32::MAX),
            serial: self.serial,
            ok: live && payload.is_some(),
            addr: self as *const _ as usize,
        }
    }
    fn set(&mut self, p: u32) {
        self.s = crate::talloc::untracked(|| format!("r{p}"));
    }
}
impl<const N: u8> Drop for ResStr<N> {
    fn drop(&mut self) {
        let live = ledger::is_live(Kind::Res, N, self.serial);
        ledger::drop_serial(Kind::Res, N, self.serial);
        if !live {
            std::mem::forget(std::mem::take(&mut self.s));
        }
        ledger::tick(Callback::Drop);
    }
}
resource_common!(ResStr);

/// Zero-sized resource.
pub struct ResZst<const N: u8>;
impl<const N: u8> Resource for ResZst<N> {
    fn make(_p: u32) -> Self {
        ledger::count_up(Kind::Res, N);
        ResZst
    }
    fn norm(_p: u32) -> u32 {
        0
    }
    fn obs(&self) -> Obs {
        Obs { payload: 0, serial: 0, ok: true, addr: self as *const _ as usize }
    }
    fn set(&mut self, _p: u32) {}
}
impl<const N: u8> Drop for ResZst<N> {
    fn drop(&mut self) {
        ledger::count_down(Kind::Res, N);
        ledger::tick(Callback::Drop);
    }
}
resource_common!(ResZst);

/// Over-aligned resource.
#[repr(align(64))]
pub struct ResWide<const N: u8> {
    serial: u64,
    p: u32,
}
impl<const N: u8> Resource for ResWide<N> {
    fn make(p: u32) -> Self {
        ResWide { serial: ledger::new_serial(Kind::Res, N), p }
    }
    fn norm(p: u32) -> u32 {
        p
    }
    fn obs(&self) -> Obs {
        let addr = self as *const _ as usize;
        Obs {
            payload: self.p,
            serial: self.serial,
            ok: ledger::is_live(Kind::Res, N, self.serial) && addr % 64 == 0,
            addr,
        }
    }
    fn set(&mut self, p: u32) {
        self.p = p;
    }
}
impl<const N: u8> Drop for ResWide<N> {
    fn drop(&mut self) {
        ledger::drop_serial(Kind::Res, N, self.serial);
        ledger::tick(Callback::Drop);
    }
}
resource_common!(ResWide);
