//! Thread-local drop ledger and panic fuse.
//!
//! Every component / resource value with an identity registers its serial here on construction
//! (make, clone, deserialize) and reports its drop. `Drop` never panics because of a bad state; it
//! records an error string that the oracles read after each operation.

use std::cell::RefCell;
use std::collections::HashMap;

#[derive(Clone, Copy, Debug, PartialEq, Eq, Hash, PartialOrd, Ord)]
pub enum Kind {
    Tiny = 0,
    Word = 1,
    Heap = 2,
    Zst = 3,
    Wide = 4,
    Odd = 5,
    Res = 6,
}

pub const NKINDS: usize = 7;
pub const MAXN: usize = 16;

#[derive(Clone, Copy, Debug, PartialEq, Eq)]
pub enum Callback {
    Clone = 0,
    Drop = 1,
    Eq = 2,
    Fmt = 3,
    Ser = 4,
    De = 5,
    Body = 6,
}
pub const NCALLBACKS: usize = 7;
pub const CALLBACK_NAMES: [&str; NCALLBACKS] = ["Clone", "Drop", "Eq", "Fmt", "Ser", "De", "Body"];

#[derive(Default)]
pub struct Ledger {
    /// serial -> (kind, n)
    pub live: HashMap<u64, (u8, u8)>,
    pub next_serial: u64,
    /// live counts for serial-less kinds (Tiny, Zst, Odd)
    pub counts: [[i64; MAXN]; NKINDS],
    pub constructed: u64,
    pub dropped: u64,
    pub errors: Vec<String>,
    /// serials constructed since the last `take_made`
    pub made: Vec<u64>,
    /// serials dropped since the last `take_dropped`
    pub dropped_serials: Vec<u64>,
    /// callback ticks since reset, per callback kind
    pub ticks: [u64; NCALLBACKS],
    /// armed fuse: (callback, remaining ticks before the panic)
    pub fuse: Option<(u8, u64)>,
    pub fuse_fired: bool,
}

thread_local! {
    static LEDGER: RefCell<Ledger> = RefCell::new(Ledger::default());
    /// Set on harness worker threads only. On other threads (rayon pool threads running system
    /// bodies) liveness questions are answered "yes" because the ledger lives on the worker.
    static ACTIVE: std::cell::Cell<bool> = const { std::cell::Cell::new(false) };
}

pub fn with<R>(f: impl FnOnce(&mut Ledger) -> R) -> R {
    // The ledger's own allocations are the harness's, never the library's.
    crate::talloc::untracked(|| LEDGER.with(|l| f(&mut l.borrow_mut())))
}

/// Reset for a new case. Serials start at a case-dependent base so that stale memory from a
/// previous case cannot look live.
pub fn reset(base: u64) {
    ACTIVE.with(|a| a.set(true));
    with(|l| {
        *l = Ledger::default();
        l.next_serial = base;
    });
}

pub fn new_serial(kind: Kind, n: u8) -> u64 {
    with(|l| {
        l.next_serial += 1;
        let s = l.next_serial;
        l.live.insert(s, (kind as u8, n));
        l.constructed += 1;
        l.made.push(s);
        s
    })
}

pub fn count_up(kind: Kind, n: u8) {
    with(|l| {
        l.counts[kind as usize][n as usize % MAXN] += 1;
        l.constructed += 1;
    })
}

pub fn count_down(kind: Kind, n: u8) {
    with(|l| {
        let c = &mut l.counts[kind as usize][n as usize % MAXN];
        *c -= 1;
        l.dropped += 1;
        if *c < 0 {
            let msg = format!("drop of {:?}<{}> with no live value of that type (double drop or drop of a never-constructed value)", kind, n);
            if l.errors.len() < 64 {
                l.errors.push(msg);
            }
        }
    })
}

pub fn drop_serial(kind: Kind, n: u8, serial: u64) {
    with(|l| {
        l.dropped += 1;
        match l.live.remove(&serial) {
            Some((k, m)) if k == kind as u8 && m == n => {
                l.dropped_serials.push(serial);
            }
            Some((k, m)) => {
                if l.errors.len() < 64 {
                    l.errors.push(format!(
                        "drop of serial {serial:#x} as {:?}<{}> but it was constructed as kind {} n {} (value reinterpreted)",
                        kind, n, k, m
                    ));
                }
            }
            None => {
                if l.errors.len() < 64 {
                    l.errors.push(format!(
                        "drop of {:?}<{}> serial {serial:#x} which is not live (second drop, or drop of freed/uninitialised memory)",
                        kind, n
                    ));
                }
            }
        }
    })
}

/// Is the serial live and of this type?
pub fn is_live(kind: Kind, n: u8, serial: u64) -> bool {
    if !ACTIVE.with(|a| a.get()) {
        return true;
    }
    with(|l| l.live.get(&serial) == Some(&(kind as u8, n)))
}

pub fn take_made() -> Vec<u64> {
    with(|l| std::mem::take(&mut l.made))
}

pub fn take_dropped() -> Vec<u64> {
    with(|l| std::mem::take(&mut l.dropped_serials))
}

pub fn take_errors() -> Vec<String> {
    with(|l| std::mem::take(&mut l.errors))
}

pub fn live_serials() -> Vec<u64> {
    with(|l| {
        let mut v: Vec<u64> = l.live.keys().copied().collect();
        v.sort_unstable();
        v
    })
}

pub fn live_count(kind: Kind, n: u8) -> i64 {
    with(|l| l.counts[kind as usize][n as usize % MAXN])
}

/// Called by every user callback. Panics when the armed fuse reaches zero.
pub fn tick(cb: Callback) {
    let fire = LEDGER
        .try_with(|l| {
            let Ok(mut l) = l.try_borrow_mut() else {
                return false;
            };
            l.ticks[cb as usize] += 1;
            if let Some((kind, remaining)) = l.fuse {
                if kind == cb as u8 {
                    if remaining == 0 {
                        l.fuse = None;
                        l.fuse_fired = true;
                        return true;
                    }
                    l.fuse = Some((kind, remaining - 1));
                }
            }
            false
        })
        .unwrap_or(false);
    if fire && !std::thread::panicking() {
        std::panic::panic_any(FusePanic(cb));
    }
}

/// Payload of an injected panic.
#[derive(Debug, Clone, Copy)]
pub struct FusePanic(pub Callback);

pub fn arm(cb: Callback, k: u64) {
    with(|l| {
        l.fuse = Some((cb as u8, k));
        l.fuse_fired = false;
    })
}

pub fn disarm() -> bool {
    with(|l| {
        l.fuse = None;
        l.fuse_fired
    })
}

pub fn ticks() -> [u64; NCALLBACKS] {
    with(|l| l.ticks)
}

pub fn reset_ticks() {
    with(|l| l.ticks = [0; NCALLBACKS])
}
