pub mod comps;
pub mod ledger;
pub mod talloc;

pub use comps::*;
