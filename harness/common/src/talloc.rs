//! Tracking global allocator.
//!
//! Every block gets a header (magic, size, align, owner) in front and a canary behind. `dealloc`
//! checks that the block exists, has not been freed before and that size and alignment match the
//! layout it was created with; freed blocks are poisoned and parked in a quarantine ring so that
//! stale reads see poison rather than recycled data. Fresh blocks are filled with 0xA5.
//! Errors are recorded in static counters / a small ring, never raised from inside the allocator.
//!
//! Leak accounting: a worker thread brackets every call into the library with `track_on()` /
//! `track_off()`. Blocks allocated while tracking is on carry the worker's (slot, epoch) as owner;
//! `live_tracked()` is the number of such blocks of the current epoch not yet freed.

use std::alloc::{GlobalAlloc, Layout, System};
use std::cell::Cell;
use std::sync::atomic::{AtomicI64, AtomicPtr, AtomicU64, AtomicUsize, Ordering};

const MAGIC_LIVE: u64 = 0x5441_4c4c_4f43_4c56; // "TALLOCLV"
const MAGIC_FREE: u64 = 0x5441_4c4c_4f43_4652; // "TALLOCFR"
const CANARY: u64 = 0xC0DE_CAFE_F00D_BEEF;
const POST: usize = 8;
const HDR: usize = 32; // magic, size, align, owner

pub const MAX_WORKERS: usize = 64;
const QUARANTINE: usize = 512;
const QUARANTINE_MAX_BLOCK: usize = 1 << 16;

#[repr(C)]
struct Header {
    magic: u64,
    size: u64,
    align: u64,
    owner: u64,
}

pub struct Tracking;

static LIVE: [AtomicI64; MAX_WORKERS] = [const { AtomicI64::new(0) }; MAX_WORKERS];
static LIVE_BYTES: [AtomicI64; MAX_WORKERS] = [const { AtomicI64::new(0) }; MAX_WORKERS];
static EPOCH: [AtomicU64; MAX_WORKERS] = [const { AtomicU64::new(0) }; MAX_WORKERS];
/// One quarantine ring per worker slot (the last one is shared by non-worker threads), so that a
/// damaged poison pattern is found by the worker whose case freed the block.
static RING: [[AtomicPtr<u8>; QUARANTINE]; MAX_WORKERS] =
    [const { [const { AtomicPtr::new(std::ptr::null_mut()) }; QUARANTINE] }; MAX_WORKERS];
static RING_POS: [AtomicUsize; MAX_WORKERS] = [const { AtomicUsize::new(0) }; MAX_WORKERS];
/// Number of blocks pushed to the ring since `begin_case`.
static PUSHED: [AtomicUsize; MAX_WORKERS] = [const { AtomicUsize::new(0) }; MAX_WORKERS];

pub const E_DOUBLE_FREE: usize = 0;
pub const E_UNKNOWN_BLOCK: usize = 1;
pub const E_SIZE_MISMATCH: usize = 2;
pub const E_ALIGN_MISMATCH: usize = 3;
pub const E_CANARY: usize = 4;
pub const E_POISON_DAMAGED: usize = 5;
pub const NERR: usize = 6;
pub const ERR_NAMES: [&str; NERR] = [
    "block freed twice",
    "free/realloc of a block this allocator never handed out (or with a wrong alignment)",
    "free/realloc with a size different from the allocation's",
    "free/realloc with an alignment different from the allocation's",
    "write past the end of a block (canary damaged)",
    "write into a freed block (poison damaged)",
];
/// Error counters per worker slot (slot MAX_WORKERS-1 collects errors from non-worker threads).
static ERRORS: [[AtomicU64; NERR]; MAX_WORKERS] =
    [const { [const { AtomicU64::new(0) }; NERR] }; MAX_WORKERS];

thread_local! {
    /// worker slot + 1 (0 = not a worker)
    static SLOT: Cell<usize> = const { Cell::new(0) };
    static TRACK: Cell<bool> = const { Cell::new(false) };
}

fn pre(align: usize) -> usize {
    // Distance from the real block start to the user pointer: a multiple of the alignment that
    // has room for the header.
    let a = align.max(16);
    (HDR + a - 1) / a * a
}

fn record(code: usize) {
    let slot = SLOT.try_with(|s| s.get()).unwrap_or(0);
    let slot = if slot == 0 { MAX_WORKERS - 1 } else { slot - 1 };
    ERRORS[slot][code].fetch_add(1, Ordering::Relaxed);
}

unsafe fn really_free(user: *mut u8) {
    // The header survives poisoning, so the real layout can be recomputed from it.
    let h = &*(user.sub(HDR) as *const Header);
    let size = h.size as usize;
    let align = h.align as usize;
    let pre = pre(align);
    // Check the poison before letting go of the block.
    let bytes = std::slice::from_raw_parts(user, size);
    if bytes.iter().any(|&b| b != 0xDE) {
        record(E_POISON_DAMAGED);
    }
    let real = Layout::from_size_align_unchecked(pre + size + POST, align.max(16));
    System.dealloc(user.sub(pre), real);
}

unsafe impl GlobalAlloc for Tracking {
    unsafe fn alloc(&self, layout: Layout) -> *mut u8 {
        let pre = pre(layout.align());
        let Ok(real) = Layout::from_size_align(pre + layout.size() + POST, layout.align().max(16)) else {
            return std::ptr::null_mut();
        };
        let base = System.alloc(real);
        if base.is_null() {
            return base;
        }
        let user = base.add(pre);
        let (slot, track) = (
            SLOT.try_with(|s| s.get()).unwrap_or(0),
            TRACK.try_with(|t| t.get()).unwrap_or(false),
        );
        let owner = if track && slot != 0 {
            LIVE[slot - 1].fetch_add(1, Ordering::Relaxed);
            LIVE_BYTES[slot - 1].fetch_add(layout.size() as i64, Ordering::Relaxed);
            ((slot as u64) << 48) | (EPOCH[slot - 1].load(Ordering::Relaxed) & 0xffff_ffff_ffff)
        } else {
            0
        };
        (user.sub(HDR) as *mut Header).write(Header {
            magic: MAGIC_LIVE,
            size: layout.size() as u64,
            align: layout.align() as u64,
            owner,
        });
        std::ptr::write_bytes(user, 0xA5, layout.size());
        (user.add(layout.size()) as *mut [u8; POST]).write(CANARY.to_ne_bytes());
        user
    }

    unsafe fn dealloc(&self, user: *mut u8, layout: Layout) {
        let h = user.sub(HDR) as *mut Header;
        let magic = (*h).magic;
        if magic == MAGIC_FREE {
            record(E_DOUBLE_FREE);
            return; // never free twice for real
        }
        if magic != MAGIC_LIVE {
            record(E_UNKNOWN_BLOCK);
            return; // leak rather than hand garbage to the system allocator
        }
        let mut bad = false;
        if (*h).size != layout.size() as u64 {
            record(E_SIZE_MISMATCH);
            bad = true;
        }
        if (*h).align != layout.align() as u64 {
            record(E_ALIGN_MISMATCH);
            bad = true;
        }
        let size = (*h).size as usize;
        let canary = (user.add(size) as *const [u8; POST]).read();
        if canary != CANARY.to_ne_bytes() {
            record(E_CANARY);
        }
        let owner = (*h).owner;
        if owner != 0 {
            let slot = (owner >> 48) as usize;
            if slot >= 1 && slot <= MAX_WORKERS {
                let epoch = owner & 0xffff_ffff_ffff;
                if EPOCH[slot - 1].load(Ordering::Relaxed) & 0xffff_ffff_ffff == epoch {
                    LIVE[slot - 1].fetch_sub(1, Ordering::Relaxed);
                    LIVE_BYTES[slot - 1].fetch_sub(size as i64, Ordering::Relaxed);
                }
            }
        }
        let _ = bad;
        (*h).magic = MAGIC_FREE;
        std::ptr::write_bytes(user, 0xDE, size);
        if size <= QUARANTINE_MAX_BLOCK {
            let slot = SLOT.try_with(|s| s.get()).unwrap_or(0);
            let slot = if slot == 0 { MAX_WORKERS - 1 } else { slot - 1 };
            let pos = RING_POS[slot].fetch_add(1, Ordering::Relaxed) % QUARANTINE;
            PUSHED[slot].fetch_add(1, Ordering::Relaxed);
            let old = RING[slot][pos].swap(user, Ordering::AcqRel);
            if !old.is_null() {
                really_free(old);
            }
        } else {
            really_free(user);
        }
    }

    unsafe fn realloc(&self, user: *mut u8, layout: Layout, new_size: usize) -> *mut u8 {
        let new_layout = Layout::from_size_align_unchecked(new_size, layout.align());
        let new = self.alloc(new_layout);
        if !new.is_null() {
            // Copy what the *allocation* really holds at most, so a wrong `layout.size()` cannot
            // make the harness itself read out of bounds.
            let h = user.sub(HDR) as *const Header;
            let have = if (*h).magic == MAGIC_LIVE { (*h).size as usize } else { 0 };
            std::ptr::copy_nonoverlapping(user, new, have.min(layout.size()).min(new_size));
            self.dealloc(user, layout);
        }
        new
    }
}

/// Register the current thread as worker `slot` (0-based) and start a new epoch.
pub fn begin_case(slot: usize) {
    assert!(slot < MAX_WORKERS - 1);
    SLOT.with(|s| s.set(slot + 1));
    TRACK.with(|t| t.set(false));
    EPOCH[slot].fetch_add(1, Ordering::Relaxed);
    LIVE[slot].store(0, Ordering::Relaxed);
    LIVE_BYTES[slot].store(0, Ordering::Relaxed);
    for e in &ERRORS[slot] {
        e.store(0, Ordering::Relaxed);
    }
    PUSHED[slot].store(0, Ordering::Relaxed);
}

/// Verify the poison of every block this worker freed during the current case that is still in
/// quarantine (first 4 KiB of each). Damage is recorded as an error of the current case.
pub fn check_quarantine() {
    let Some(slot) = slot() else { return };
    let pushed = PUSHED[slot].load(Ordering::Relaxed).min(QUARANTINE);
    let pos = RING_POS[slot].load(Ordering::Relaxed);
    for k in 0..pushed {
        let i = (pos + QUARANTINE - 1 - k) % QUARANTINE;
        let user = RING[slot][i].load(Ordering::Acquire);
        if user.is_null() {
            continue;
        }
        // SAFETY: blocks in the ring are owned by the allocator and not yet returned to the system.
        unsafe {
            let h = &*(user.sub(HDR) as *const Header);
            let size = (h.size as usize).min(4096);
            if std::slice::from_raw_parts(user, size).iter().any(|&b| b != 0xDE) {
                record(E_POISON_DAMAGED);
                // re-poison so the same damage is reported once
                std::ptr::write_bytes(user, 0xDE, size);
            }
        }
    }
}

pub fn track_on() -> bool {
    TRACK.with(|t| t.replace(true))
}

pub fn track_set(v: bool) {
    TRACK.with(|t| t.set(v));
}

/// Run `f` with leak tracking on.
pub fn tracked<R>(f: impl FnOnce() -> R) -> R {
    struct Guard(bool);
    impl Drop for Guard {
        fn drop(&mut self) {
            track_set(self.0);
        }
    }
    let _g = Guard(track_on());
    f()
}

/// Run `f` with leak tracking off (for harness-internal allocations made inside a tracked call).
pub fn untracked<R>(f: impl FnOnce() -> R) -> R {
    struct Guard(bool);
    impl Drop for Guard {
        fn drop(&mut self) {
            track_set(self.0);
        }
    }
    let _g = Guard(TRACK.with(|t| t.replace(false)));
    f()
}

fn slot() -> Option<usize> {
    let s = SLOT.with(|s| s.get());
    if s == 0 {
        None
    } else {
        Some(s - 1)
    }
}

/// (blocks, bytes) allocated in tracked sections of the current case and still live.
pub fn live_tracked() -> (i64, i64) {
    match slot() {
        Some(s) => (LIVE[s].load(Ordering::Relaxed), LIVE_BYTES[s].load(Ordering::Relaxed)),
        None => (0, 0),
    }
}

/// Error counters of the current worker since `begin_case`.
pub fn errors() -> [u64; NERR] {
    let mut out = [0; NERR];
    if let Some(s) = slot() {
        for (o, e) in out.iter_mut().zip(&ERRORS[s]) {
            *o = e.load(Ordering::Relaxed);
        }
    }
    out
}

/// Error counters recorded on threads that are not workers (rayon pool threads).
pub fn foreign_errors() -> [u64; NERR] {
    let mut out = [0; NERR];
    for (o, e) in out.iter_mut().zip(&ERRORS[MAX_WORKERS - 1]) {
        *o = e.load(Ordering::Relaxed);
    }
    out
}

pub fn describe(errs: &[u64; NERR]) -> Option<String> {
    let parts: Vec<String> = errs
        .iter()
        .enumerate()
        .filter(|(_, &n)| n > 0)
        .map(|(i, n)| format!("{} x{}", ERR_NAMES[i], n))
        .collect();
    if parts.is_empty() {
        None
    } else {
        Some(parts.join("; "))
    }
}
