//! Crash reporting: a fatal signal (SIGSEGV, SIGBUS, SIGILL, SIGABRT, SIGFPE) while a generated
//! case is running writes that case to `<report>.crash.json` and ends the process with status 3.
//! The case text is prepared *before* the case runs, so the handler only copies bytes.

use std::cell::Cell;
use std::sync::atomic::{AtomicPtr, AtomicUsize, Ordering};

const MAX: usize = 64;
static CASE_PTR: [AtomicPtr<u8>; MAX] = [const { AtomicPtr::new(std::ptr::null_mut()) }; MAX];
static CASE_LEN: [AtomicUsize; MAX] = [const { AtomicUsize::new(0) }; MAX];
static STEP: [AtomicUsize; MAX] = [const { AtomicUsize::new(0) }; MAX];
static PATH: AtomicPtr<u8> = AtomicPtr::new(std::ptr::null_mut());

/// Record the 1-based step the current worker is executing (0 = outside any step).
pub fn set_step(step: usize) {
    let slot = SLOT.try_with(|s| s.get()).unwrap_or(usize::MAX);
    if slot < MAX {
        STEP[slot].store(step, Ordering::Relaxed);
    }
}

thread_local! {
    static SLOT: Cell<usize> = const { Cell::new(usize::MAX) };
}

/// Announce the case the current worker is about to run. `text` must stay alive until `clear`.
pub fn announce(slot: usize, text: &str) {
    if slot < MAX {
        SLOT.with(|s| s.set(slot));
        CASE_PTR[slot].store(text.as_ptr() as *mut u8, Ordering::Release);
        CASE_LEN[slot].store(text.len(), Ordering::Release);
    }
}

pub fn clear(slot: usize) {
    if slot < MAX {
        CASE_LEN[slot].store(0, Ordering::Release);
        CASE_PTR[slot].store(std::ptr::null_mut(), Ordering::Release);
    }
}

extern "C" fn handler(sig: libc::c_int) {
    unsafe {
        let path = PATH.load(Ordering::Acquire);
        let slot = SLOT.try_with(|s| s.get()).unwrap_or(usize::MAX);
        if !path.is_null() {
            let fd = libc::open(path as *const libc::c_char, libc::O_WRONLY | libc::O_CREAT | libc::O_TRUNC, 0o644);
            if fd >= 0 {
                let head = b"{\"signal\": ";
                libc::write(fd, head.as_ptr() as *const _, head.len());
                let digits = [b'0' + (sig / 10) as u8, b'0' + (sig % 10) as u8];
                libc::write(fd, digits.as_ptr() as *const _, 2);
                let st = b", \"step\": ";
                libc::write(fd, st.as_ptr() as *const _, st.len());
                let mut step = if slot < MAX { STEP[slot].load(Ordering::Relaxed) } else { 0 };
                let mut buf = [b'0'; 20];
                let mut i = buf.len();
                loop {
                    i -= 1;
                    buf[i] = b'0' + (step % 10) as u8;
                    step /= 10;
                    if step == 0 {
                        break;
                    }
                }
                libc::write(fd, buf.as_ptr().add(i) as *const _, buf.len() - i);
                let mid = b", \"replay\": ";
                libc::write(fd, mid.as_ptr() as *const _, mid.len());
                let mut wrote = false;
                if slot < MAX {
                    let p = CASE_PTR[slot].load(Ordering::Acquire);
                    let n = CASE_LEN[slot].load(Ordering::Acquire);
                    if !p.is_null() && n > 0 {
                        libc::write(fd, p as *const _, n);
                        wrote = true;
                    }
                }
                if !wrote {
                    let null = b"null";
                    libc::write(fd, null.as_ptr() as *const _, null.len());
                }
                let tail = b"}\n";
                libc::write(fd, tail.as_ptr() as *const _, tail.len());
                libc::close(fd);
            }
        }
        libc::_exit(3);
    }
}

/// Install the handler; `path` is where the crashing case is written.
pub fn install(path: &str) {
    let c = std::ffi::CString::new(path).unwrap();
    PATH.store(c.into_raw() as *mut u8, Ordering::Release);
    unsafe {
        // an alternate stack so that the handler can run after a stack overflow as well
        let size = 1 << 16;
        let stack = libc::stack_t { ss_sp: libc::malloc(size), ss_flags: 0, ss_size: size };
        libc::sigaltstack(&stack, std::ptr::null_mut());
        for sig in [libc::SIGSEGV, libc::SIGBUS, libc::SIGILL, libc::SIGABRT, libc::SIGFPE] {
            let mut sa: libc::sigaction = std::mem::zeroed();
            sa.sa_sigaction = handler as usize;
            sa.sa_flags = libc::SA_ONSTACK | libc::SA_NODEFER;
            libc::sigemptyset(&mut sa.sa_mask);
            libc::sigaction(sig, &sa, std::ptr::null_mut());
        }
    }
}
