//! Crash reporting: a fatal signal (SIGSEGV, SIGBUS, SIGILL, SIGABRT, SIGFPE) while a generated
//! case is running writes that case to `<report>.crash.json` and ends the process with status 3.
//! The case text is prepared *before* the case runs, so the handler only copies bytes.

use std::cell::Cell;
use std::sync::atomic::{AtomicPtr, AtomicUsize, Ordering};

const MAX: usize = 64;
static CASE_PTR: [AtomicPtr<u8>; MAX] = [const { AtomicPtr::new(std::ptr::null_mut()) }; MAX];
static CASE_LEN: [AtomicUsize; MAX] = [const { AtomicUsize::new(0) }; MAX];
static STEP: [AtomicUsize; MAX] = [const { AtomicUsize::new(0) }; MAX];
static PATH: AtomicPtr<u8> = AtomicPtr::new(std::ptr::null_mut());

/// Record the 1-based step the current worker is executing (0 = outside any step).
pub fn set_step(step: usize) {
    let slot = SLOT.try_with(|s| s.get()).unwrap_or(usize::MAX);
    if slot < MAX {
        STEP[slot].store(step, Ordering::Relaxed);
    }
}

/// Step of the case announced on this thread (used by `replay` to report where it died).
pub fn announce_replay(text: &str) {
    announce(0, text);
}

thread_local! {
    static SLOT: Cell<usize> = const { Cell::new(usize::MAX) };
}

/// Announce the case the current worker is about to run. `text` must stay alive until `clear`.
pub fn announce(slot: usize, text: &str) {
    if slot < MAX {
        SLOT.with(|s| s.set(slot));
        CASE_PTR[slot].store(text.as_ptr() as *mut u8, Ordering::Release);
        CASE_LEN[slot].store(text.len(), Ordering::Release);
    }
}

pub fn clear(slot: usize) {
    if slot < MAX {
        CASE_LEN[slot].store(0, Ordering::Release);
        CASE_PTR[slot].store(std::ptr::null_mut(), Ordering::Release);
    }
}

unsafe fn put(fd: libc::c_int, bytes: &[u8]) {
    libc::write(fd, bytes.as_ptr() as *const _, bytes.len());
}

unsafe fn put_num(fd: libc::c_int, mut v: usize) {
    let mut buf = [b'0'; 20];
    let mut i = buf.len();
    loop {
        i -= 1;
        buf[i] = b'0' + (v % 10) as u8;
        v /= 10;
        if v == 0 {
            break;
        }
    }
    put(fd, &buf[i..]);
}

/// 0 = nobody is reporting yet, otherwise the pthread id of the reporting thread
static REPORTER: AtomicUsize = AtomicUsize::new(0);

extern "C" fn handler(sig: libc::c_int) {
    unsafe {
        // Memory corruption usually takes several workers down at almost the same time: only the
        // first one writes the report (two writers garble the file), the others wait for its
        // `_exit`. A second fault on the reporting thread itself ends the process at once.
        let me = libc::pthread_self() as usize;
        if let Err(owner) = REPORTER.compare_exchange(0, me, Ordering::SeqCst, Ordering::SeqCst) {
            if owner == me {
                libc::_exit(3);
            }
            loop {
                libc::pause();
            }
        }
        let path = PATH.load(Ordering::Acquire);
        let slot = SLOT.try_with(|s| s.get()).unwrap_or(usize::MAX);
        if !path.is_null() {
            let fd = libc::open(path as *const libc::c_char, libc::O_WRONLY | libc::O_CREAT | libc::O_TRUNC, 0o644);
            if fd >= 0 {
                put(fd, b"{\"signal\": ");
                put_num(fd, sig as usize);
                // the crashing thread's worker slot, or -1 when the signal arrived on another
                // thread (a rayon pool thread): then every running case is a candidate
                put(fd, b", \"slot\": ");
                if slot < MAX {
                    put_num(fd, slot);
                } else {
                    put(fd, b"-1");
                }
                put(fd, b", \"cases\": [");
                let mut first = true;
                for i in 0..MAX {
                    let p = CASE_PTR[i].load(Ordering::Acquire);
                    let n = CASE_LEN[i].load(Ordering::Acquire);
                    if !p.is_null() && n > 0 {
                        if !first {
                            put(fd, b", ");
                        }
                        first = false;
                        put(fd, b"{\"slot\": ");
                        put_num(fd, i);
                        put(fd, b", \"step\": ");
                        put_num(fd, STEP[i].load(Ordering::Relaxed));
                        put(fd, b", \"replay\": ");
                        libc::write(fd, p as *const _, n);
                        put(fd, b"}");
                    }
                }
                put(fd, b"]}\n");
                libc::close(fd);
            }
        }
        libc::_exit(3);
    }
}

/// Install the handler; `path` is where the crashing case is written.
pub fn install(path: &str) {
    if cfg!(miri) {
        // the interpreter reports the fault itself; signal handlers are not available there
        return;
    }
    let c = std::ffi::CString::new(path).unwrap();
    PATH.store(c.into_raw() as *mut u8, Ordering::Release);
    unsafe {
        // an alternate stack so that the handler can run after a stack overflow as well
        let size = 1 << 16;
        let stack = libc::stack_t { ss_sp: libc::malloc(size), ss_flags: 0, ss_size: size };
        libc::sigaltstack(&stack, std::ptr::null_mut());
        for sig in [libc::SIGSEGV, libc::SIGBUS, libc::SIGILL, libc::SIGABRT, libc::SIGFPE] {
            let mut sa: libc::sigaction = std::mem::zeroed();
            sa.sa_sigaction = handler as usize;
            sa.sa_flags = libc::SA_ONSTACK | libc::SA_NODEFER;
            libc::sigemptyset(&mut sa.sa_mask);
            libc::sigaction(sig, &sa, std::ptr::null_mut());
        }
    }
}
