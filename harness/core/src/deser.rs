//! C11: deserializing edited serializations. A base world is built by a generated history and
//! serialized in one of the five encodings; 1-4 generated edits (token / JSON-node level: delete,
//! duplicate, swap, copy or reorder tokens and balanced subtrees, tweak declared lengths, numbers,
//! identifier bytes, field names, token types; JSON also raw byte flips and truncation) produce the
//! input. The outcome must be `Err` or a fully valid world, which is then adopted as its own
//! reference and driven through a further generated history with every engine oracle on.

use crate::interp::{audit_structure, snapshot_map, Exclusions, Fail, Interp, MVal, Model, Slot};
use crate::ops::{history_strategy, Op, Profile};
use crate::reg::{Enc, Encoded, Reg, ENCS};
use crate::runner::set_quiet;
use proptest::prelude::*;
use proptest::test_runner::{Config as PtConfig, RngSeed, TestCaseError, TestError, TestRunner};
use serde::{Deserialize, Serialize};
use serde_assert::Token;
use std::collections::{BTreeMap, HashSet};
use std::hash::{Hash, Hasher};
use std::panic::{catch_unwind, AssertUnwindSafe};
use std::sync::atomic::{AtomicBool, Ordering};
use std::sync::{Arc, Mutex};
use vcommon::{ledger, talloc};

#[derive(Clone, Copy, Debug, Serialize, Deserialize, PartialEq, Eq, Hash)]
pub struct Edit {
    pub kind: u8,
    pub a: u16,
    pub b: u16,
    pub v: u16,
}

#[derive(Clone, Debug, Serialize, Deserialize)]
pub struct DeserCase {
    pub base: Vec<Op>,
    pub enc: Enc,
    pub edits: Vec<Edit>,
    pub follow: Vec<Op>,
    /// `(which, below_max)`: after the other edits and after the declared-length screen, the
    /// generation of one identifier of the input (a stored entity's or a free-list entry's) is set
    /// to `u64::MAX - below_max`, so that the follow-up history can wrap the generation of that
    /// slot around (JSON encoding only).
    #[serde(default)]
    pub boost: Option<(u16, u8)>,
}

/// See `DeserCase::boost`.
fn apply_generation_boost(e: &Encoded, boost: Option<(u16, u8)>) -> Option<Encoded> {
    let (which, below) = boost?;
    let Encoded::Json(text) = e else { return None };
    let mut v = serde_json::from_str::<Value>(text).ok()?;
    fn is_id(m: &serde_json::Map<String, Value>) -> bool {
        m.len() == 2 && m.contains_key("index") && m.contains_key("generation")
    }
    fn count(v: &Value) -> usize {
        match v {
            Value::Object(m) if is_id(m) => 1,
            Value::Object(m) => m.values().map(count).sum(),
            Value::Array(a) => a.iter().map(count).sum(),
            _ => 0,
        }
    }
    /// sets the generation of the `k`-th identifier (document order); returns how many were passed
    fn set(v: &mut Value, k: &mut usize, to: u64) -> bool {
        match v {
            Value::Object(m) if is_id(m) => {
                if *k == 0 {
                    m.insert("generation".into(), Value::from(to));
                    return true;
                }
                *k -= 1;
                false
            }
            Value::Object(m) => m.values_mut().any(|x| set(x, k, to)),
            Value::Array(a) => a.iter_mut().any(|x| set(x, k, to)),
            _ => false,
        }
    }
    let n = count(&v);
    if n == 0 {
        return None;
    }
    let mut k = idx(which, n);
    if !set(&mut v, &mut k, u64::MAX - below as u64) {
        return None;
    }
    Some(Encoded::Json(serde_json::to_string(&v).ok()?))
}

#[derive(Clone, Debug, Serialize, Deserialize)]
pub struct DeserReplay {
    pub property: String,
    pub engine: String,
    pub registry: String,
    pub pool_digest: String,
    pub seed: u64,
    pub case: DeserCase,
    #[serde(default)]
    pub failure: String,
    #[serde(default)]
    pub oracle: String,
}

fn idx(t: u16, len: usize) -> usize {
    (t as usize * len) >> 16
}

// -------------------------------------------------------------------------------------------------
// token edits
// -------------------------------------------------------------------------------------------------

fn is_start(t: &Token) -> bool {
    matches!(t, Token::Seq { .. } | Token::Tuple { .. } | Token::TupleStruct { .. } | Token::Map { .. } | Token::Struct { .. } | Token::TupleVariant { .. } | Token::StructVariant { .. })
}
fn is_end(t: &Token) -> bool {
    matches!(t, Token::SeqEnd | Token::TupleEnd | Token::TupleStructEnd | Token::MapEnd | Token::StructEnd | Token::TupleVariantEnd | Token::StructVariantEnd)
}

/// End (exclusive) of the value starting at `i`.
fn value_end(toks: &[Token], i: usize) -> usize {
    if i >= toks.len() {
        return toks.len();
    }
    match &toks[i] {
        Token::NewtypeStruct { .. } | Token::Some | Token::NewtypeVariant { .. } => value_end(toks, i + 1),
        t if is_start(t) => {
            let mut depth = 0usize;
            let mut j = i;
            while j < toks.len() {
                if is_start(&toks[j]) {
                    depth += 1;
                } else if is_end(&toks[j]) {
                    depth = depth.saturating_sub(1);
                    if depth == 0 {
                        return j + 1;
                    }
                }
                j += 1;
            }
            toks.len()
        }
        _ => i + 1,
    }
}

fn num_get(t: &Token) -> Option<u64> {
    Some(match t {
        Token::U8(x) => *x as u64,
        Token::U16(x) => *x as u64,
        Token::U32(x) => *x as u64,
        Token::U64(x) => *x,
        Token::I8(x) => *x as u64,
        Token::I16(x) => *x as u64,
        Token::I32(x) => *x as i64 as u64,
        Token::I64(x) => *x as u64,
        _ => return None,
    })
}

fn num_set(t: &mut Token, v: u64) {
    match t {
        Token::U8(x) => *x = v as u8,
        Token::U16(x) => *x = v as u16,
        Token::U32(x) => *x = v as u32,
        Token::U64(x) => *x = v,
        Token::I8(x) => *x = v as i8,
        Token::I16(x) => *x = v as i16,
        Token::I32(x) => *x = v as i32,
        Token::I64(x) => *x = v as i64,
        _ => {}
    }
}

fn same_kind(a: &Token, b: &Token) -> bool {
    match (a, b) {
        (Token::Struct { name: x, .. }, Token::Struct { name: y, .. }) => x == y,
        (Token::NewtypeStruct { name: x }, Token::NewtypeStruct { name: y }) => x == y,
        _ => std::mem::discriminant(a) == std::mem::discriminant(b),
    }
}

const FIELDS: [&str; 6] = ["index", "generation", "length", "free", "bogus", "Index"];

/// Positions of the parts of one serialized archetype in a token stream.
struct ArchPos {
    /// index of the declared `length` token
    length: usize,
    /// index of the start token of the rows (row-wise) or columns (column-wise) container
    body: usize,
}

fn find_archetypes(toks: &[Token]) -> Vec<ArchPos> {
    let mut out = Vec::new();
    for i in 0..toks.len() {
        if let Token::NewtypeStruct { name: "Archetype" } = &toks[i] {
            if i + 2 < toks.len() && is_start(&toks[i + 1]) {
                let ident_end = value_end(toks, i + 2);
                if ident_end + 1 < toks.len() && num_get(&toks[ident_end]).is_some() && is_start(&toks[ident_end + 1]) {
                    out.push(ArchPos { length: ident_end, body: ident_end + 1 });
                }
            }
        }
    }
    out
}

/// Children (start, end) of the container starting at `i`.
fn children(toks: &[Token], i: usize) -> Vec<(usize, usize)> {
    let end = value_end(toks, i);
    let mut out = Vec::new();
    let mut j = i + 1;
    while j + 1 < end {
        let e = value_end(toks, j);
        out.push((j, e));
        j = e;
    }
    out
}

fn bump_len(t: &mut Token, delta: i64) {
    let f = |l: usize| (l as i64 + delta).max(0) as usize;
    match t {
        Token::Seq { len: Some(l) } => *l = f(*l),
        Token::Tuple { len } | Token::TupleStruct { len, .. } | Token::Struct { len, .. } => *len = f(*len),
        t => {
            if let Some(x) = num_get(t) {
                num_set(t, (x as i64 + delta).max(0) as u64);
            }
        }
    }
}

/// Structure-aware compound edits that keep the surrounding declared lengths consistent, so that
/// only the targeted inconsistency remains (duplicate / missing entity, free-list corruption).
fn macro_edit_tokens(toks: &mut Vec<Token>, e: &Edit, human_readable: bool) -> bool {
    let archs = find_archetypes(toks);
    match e.kind % 6 {
        // duplicate (0) or delete (1) one row of one archetype, adjusting every declared length
        0 | 1 if !archs.is_empty() => {
            let a = &archs[idx(e.a, archs.len())];
            let dup = e.kind % 6 == 0;
            let delta = if dup { 1 } else { -1 };
            if human_readable {
                let rows = children(toks, a.body);
                if rows.is_empty() {
                    return false;
                }
                let (rs, re) = rows[idx(e.b, rows.len())];
                let row: Vec<Token> = toks[rs..re].to_vec();
                if dup {
                    toks.splice(re..re, row);
                } else {
                    toks.drain(rs..re);
                }
                bump_len(&mut toks[a.body], delta);
                bump_len(&mut toks[a.length], delta);
            } else {
                // column-wise: the same element of every column; go from the last column backwards
                let cols = children(toks, a.body);
                if cols.is_empty() {
                    return false;
                }
                let n0 = children(toks, cols[0].0).len();
                if n0 == 0 {
                    return false;
                }
                let r = idx(e.b, n0);
                for (cs, _) in cols.iter().rev() {
                    let elems = children(toks, *cs);
                    if r < elems.len() {
                        let (es, ee) = elems[r];
                        let el: Vec<Token> = toks[es..ee].to_vec();
                        if dup {
                            toks.splice(ee..ee, el);
                        } else {
                            toks.drain(es..ee);
                        }
                        bump_len(&mut toks[*cs], delta);
                    }
                }
                bump_len(&mut toks[a.length], delta);
            }
            true
        }
        // free list: duplicate an entry (2), add a stored identifier to it (3), drop an entry (4)
        2 | 3 | 4 => {
            // the free list is the last Seq before the resources: find `Field("free")` or, with
            // structs as sequences, the Seq following the allocator's length
            let mut free_at = None;
            for i in 0..toks.len() {
                if matches!(toks[i], Token::Field("free")) && i + 1 < toks.len() && is_start(&toks[i + 1]) {
                    free_at = Some(i + 1);
                }
            }
            if free_at.is_none() {
                // struct-as-seq: after the archetypes' SeqEnd comes Seq{2}, length, Seq{..}
                let mut depth = 0usize;
                for i in 1..toks.len() {
                    if is_start(&toks[i]) {
                        depth += 1;
                    } else if is_end(&toks[i]) {
                        depth = depth.saturating_sub(1);
                        if depth == 0 && i + 3 < toks.len() && is_start(&toks[i + 1]) && num_get(&toks[i + 2]).is_some() && is_start(&toks[i + 3]) {
                            free_at = Some(i + 3);
                            break;
                        }
                    }
                }
            }
            let Some(f) = free_at else { return false };
            let entries = children(toks, f);
            match e.kind % 6 {
                2 if !entries.is_empty() => {
                    let (s0, e0) = entries[idx(e.a, entries.len())];
                    let copy: Vec<Token> = toks[s0..e0].to_vec();
                    toks.splice(e0..e0, copy);
                    bump_len(&mut toks[f], 1);
                    true
                }
                3 => {
                    // copy the identifier of a stored row into the free list
                    let ids: Vec<usize> = (0..f).filter(|i| matches!(&toks[*i], Token::Struct { name: "Identifier", .. })).collect();
                    if ids.is_empty() {
                        return false;
                    }
                    let i = ids[idx(e.a, ids.len())];
                    let copy: Vec<Token> = toks[i..value_end(toks, i)].to_vec();
                    let at = value_end(toks, f) - 1;
                    toks.splice(at..at, copy);
                    bump_len(&mut toks[f], 1);
                    true
                }
                4 if !entries.is_empty() => {
                    let (s0, e0) = entries[idx(e.a, entries.len())];
                    toks.drain(s0..e0);
                    bump_len(&mut toks[f], -1);
                    true
                }
                _ => false,
            }
        }
        // copy one stored entity identifier over another one (same archetype or not)
        _ => {
            let ids: Vec<usize> = (0..toks.len()).filter(|i| matches!(&toks[*i], Token::Struct { name: "Identifier", .. })).collect();
            if ids.len() < 2 {
                return false;
            }
            let (i, j) = (ids[idx(e.a, ids.len())], ids[idx(e.b, ids.len())]);
            if i == j {
                return false;
            }
            let src: Vec<Token> = toks[j..value_end(toks, j)].to_vec();
            let ie = value_end(toks, i);
            toks.splice(i..ie, src);
            true
        }
    }
}

/// The same compound edits on the JSON form `[[ [ident, length, [rows..]] .. ], {length, free}, [res..]]`.
fn macro_edit_json(text: &mut String, e: &Edit) -> bool {
    let Ok(mut v) = serde_json::from_str::<Value>(text) else { return false };
    let done = (|| {
        let top = v.as_array_mut()?;
        match e.kind % 6 {
            0 | 1 => {
                let archs = top.get_mut(0)?.as_array_mut()?;
                if archs.is_empty() {
                    return None;
                }
                let ai = idx(e.a, archs.len());
                let a = archs[ai].as_array_mut()?;
                let len = a.get(1)?.as_u64()?;
                let rows = a.get_mut(2)?.as_array_mut()?;
                if rows.is_empty() {
                    return None;
                }
                let r = idx(e.b, rows.len());
                if e.kind % 6 == 0 {
                    let c = rows[r].clone();
                    rows.insert(r, c);
                    a[1] = Value::from(len + 1);
                } else {
                    rows.remove(r);
                    a[1] = Value::from(len.saturating_sub(1));
                }
                Some(())
            }
            2 | 3 | 4 => {
                let stored: Vec<Value> = top.first()?.as_array()?.iter().filter_map(|a| a.as_array()?.get(2)?.as_array().cloned()).flatten().filter_map(|row| row.as_array()?.first().cloned()).collect();
                let free = top.get_mut(1)?.as_object_mut()?.get_mut("free")?.as_array_mut()?;
                match e.kind % 6 {
                    2 if !free.is_empty() => {
                        let c = free[idx(e.a, free.len())].clone();
                        free.push(c);
                    }
                    3 if !stored.is_empty() => free.push(stored[idx(e.a, stored.len())].clone()),
                    4 if !free.is_empty() => {
                        free.remove(idx(e.a, free.len()));
                    }
                    _ => return None,
                }
                Some(())
            }
            _ => {
                let archs = top.get_mut(0)?.as_array_mut()?;
                let mut ids: Vec<Value> = Vec::new();
                for a in archs.iter() {
                    for row in a.as_array()?.get(2)?.as_array()? {
                        ids.push(row.as_array()?.first()?.clone());
                    }
                }
                if ids.len() < 2 {
                    return None;
                }
                let src = ids[idx(e.b, ids.len())].clone();
                let mut k = idx(e.a, ids.len());
                for a in archs.iter_mut() {
                    for row in a.as_array_mut()?.get_mut(2)?.as_array_mut()? {
                        if k == 0 {
                            *row.as_array_mut()?.first_mut()? = src;
                            return Some(());
                        }
                        k -= 1;
                    }
                }
                None
            }
        }
    })();
    if done.is_some() {
        *text = v.to_string();
        true
    } else {
        false
    }
}

pub fn edit_tokens(toks: &mut Vec<Token>, e: &Edit) {
    let n = toks.len();
    if n == 0 {
        return;
    }
    // Declared lengths and numbers never exceed the input size (the property's quantifier).
    let cap = n as u64;
    let starts: Vec<usize> = (0..n).filter(|i| is_start(&toks[*i]) || matches!(toks[*i], Token::NewtypeStruct { .. })).collect();
    let nums: Vec<usize> = (0..n).filter(|i| num_get(&toks[*i]).is_some()).collect();
    let fields: Vec<usize> = (0..n).filter(|i| matches!(toks[*i], Token::Field(_))).collect();
    match e.kind % 15 {
        0 => {
            toks.remove(idx(e.a, n));
        }
        1 => {
            let i = idx(e.a, n);
            let t = toks[i].clone();
            toks.insert(i, t);
        }
        2 => {
            let (i, j) = (idx(e.a, n), idx(e.b, n));
            toks.swap(i, j);
        }
        3 if !nums.is_empty() => {
            let i = nums[idx(e.a, nums.len())];
            let x = num_get(&toks[i]).unwrap();
            let v = match e.v % 7 {
                0 => 0,
                1 => x.wrapping_sub(1),
                2 => x.wrapping_add(1),
                3 => num_get(&toks[nums[idx(e.b, nums.len())]]).unwrap(),
                4 => (e.v / 7) as u64,
                5 => x ^ 1,
                _ => x ^ (1 << (e.b % 8)),
            };
            // keep small values small-bounded; payload-sized values may only move by the listed tweaks
            let v = if x <= cap || v <= cap { v.min(cap.max(x)) } else { v };
            num_set(&mut toks[i], v);
        }
        4 if !starts.is_empty() => {
            let cands: Vec<usize> = starts.iter().copied().filter(|i| is_start(&toks[*i])).collect();
            if cands.is_empty() {
                return;
            }
            let i = cands[idx(e.a, cands.len())];
            let other = cands[idx(e.b, cands.len())];
            let get = |t: &Token| match t {
                Token::Seq { len } => len.unwrap_or(0),
                Token::Tuple { len } | Token::TupleStruct { len, .. } | Token::Struct { len, .. } => *len,
                Token::Map { len } => len.unwrap_or(0),
                _ => 0,
            };
            let x = get(&toks[i]);
            let v = match e.v % 5 {
                0 => 0,
                1 => x.saturating_sub(1),
                2 => x + 1,
                3 => get(&toks[other]),
                _ => (e.v / 5) as usize % (n + 1),
            }
            .min(n);
            match &mut toks[i] {
                Token::Seq { len } => *len = if e.v % 11 == 10 { None } else { Some(v) },
                Token::Tuple { len } | Token::TupleStruct { len, .. } | Token::Struct { len, .. } => *len = v,
                Token::Map { len } => *len = Some(v),
                _ => {}
            }
        }
        5 if !starts.is_empty() => {
            let i = starts[idx(e.a, starts.len())];
            let j = value_end(toks, i);
            toks.drain(i..j);
        }
        6 if !starts.is_empty() => {
            let i = starts[idx(e.a, starts.len())];
            let j = value_end(toks, i);
            let copy: Vec<Token> = toks[i..j].to_vec();
            if toks.len() + copy.len() <= 4 * n + 64 {
                let at = if e.v % 2 == 0 { j } else { i };
                toks.splice(at..at, copy);
            }
        }
        7 | 12 if starts.len() >= 2 => {
            let i = starts[idx(e.a, starts.len())];
            let same: Vec<usize> = starts.iter().copied().filter(|j| *j != i && same_kind(&toks[*j], &toks[i])).collect();
            if same.is_empty() {
                return;
            }
            let j = same[idx(e.b, same.len())];
            let (ie, je) = (value_end(toks, i), value_end(toks, j));
            // skip nested pairs
            if (i < j && ie > j) || (j < i && je > i) {
                return;
            }
            let a: Vec<Token> = toks[i..ie].to_vec();
            let b: Vec<Token> = toks[j..je].to_vec();
            if e.kind % 15 == 7 {
                // copy j over i
                toks.splice(i..ie, b);
            } else if i < j {
                toks.splice(j..je, a);
                toks.splice(i..ie, b);
            } else {
                toks.splice(i..ie, b);
                toks.splice(j..je, a);
            }
        }
        8 if !fields.is_empty() => {
            let i = fields[idx(e.a, fields.len())];
            toks[i] = Token::Field(FIELDS[e.v as usize % FIELDS.len()]);
        }
        9 if !fields.is_empty() => {
            let i = fields[idx(e.a, fields.len())];
            let j = value_end(toks, i + 1);
            toks.drain(i..j);
        }
        10 if !fields.is_empty() => {
            let i = fields[idx(e.a, fields.len())];
            let j = value_end(toks, i + 1);
            let copy: Vec<Token> = toks[i..j].to_vec();
            toks.splice(j..j, copy);
        }
        11 => {
            let strs: Vec<usize> = (0..n).filter(|i| matches!(toks[*i], Token::Str(_))).collect();
            if strs.is_empty() {
                return;
            }
            let i = strs[idx(e.a, strs.len())];
            if let Token::Str(s) = &mut toks[i] {
                match e.v % 4 {
                    0 => s.clear(),
                    1 => s.push('7'),
                    2 => *s = format!("h{}", e.b),
                    _ => *s = "x".into(),
                }
            }
        }
        13 => {
            let i = idx(e.a, n);
            let t = match &toks[i] {
                Token::U8(x) => Token::U16(*x as u16),
                Token::U32(x) => Token::U64(*x as u64),
                Token::U64(x) => {
                    if e.v % 2 == 0 {
                        Token::U32(*x as u32)
                    } else {
                        Token::Str(x.to_string())
                    }
                }
                Token::I32(x) => Token::I64(*x as i64),
                Token::Str(_) => Token::U32(e.v as u32),
                Token::Unit => Token::U8(0),
                Token::Tuple { len } => Token::Seq { len: Some(*len) },
                Token::TupleEnd => Token::SeqEnd,
                Token::Struct { len, .. } => Token::Tuple { len: *len },
                Token::StructEnd => Token::TupleEnd,
                Token::Seq { len } => Token::Tuple { len: len.unwrap_or(0) },
                Token::SeqEnd => Token::TupleEnd,
                other => other.clone(),
            };
            toks[i] = t;
        }
        14 => {
            // truncate
            let i = idx(e.a, n);
            toks.truncate(i.max(1));
        }
        _ => {}
    }
}

// -------------------------------------------------------------------------------------------------
// JSON edits
// -------------------------------------------------------------------------------------------------

use serde_json::Value;

fn paths(v: &Value, cur: &mut Vec<usize>, out: &mut Vec<Vec<usize>>) {
    out.push(cur.clone());
    match v {
        Value::Array(a) => {
            for (i, x) in a.iter().enumerate() {
                cur.push(i);
                paths(x, cur, out);
                cur.pop();
            }
        }
        Value::Object(o) => {
            for (i, (_, x)) in o.iter().enumerate() {
                cur.push(i);
                paths(x, cur, out);
                cur.pop();
            }
        }
        _ => {}
    }
}

fn get_mut<'a>(v: &'a mut Value, path: &[usize]) -> Option<&'a mut Value> {
    let mut cur = v;
    for p in path {
        cur = match cur {
            Value::Array(a) => a.get_mut(*p)?,
            Value::Object(o) => o.iter_mut().nth(*p)?.1,
            _ => return None,
        };
    }
    Some(cur)
}

pub fn edit_json(text: &mut String, e: &Edit) {
    let cap = text.len() as u64;
    match e.kind % 15 {
        13 => {
            // raw byte flip (kept valid UTF-8 by only touching ASCII)
            let mut bytes = std::mem::take(text).into_bytes();
            if !bytes.is_empty() {
                let i = idx(e.a, bytes.len());
                if bytes[i].is_ascii() {
                    let nb = bytes[i] ^ (1 << (e.v % 7));
                    if nb.is_ascii() {
                        bytes[i] = nb;
                    }
                }
            }
            *text = String::from_utf8(bytes).unwrap_or_default();
            return;
        }
        14 => {
            let i = idx(e.a, text.len());
            if text.is_char_boundary(i) {
                text.truncate(i);
            }
            return;
        }
        _ => {}
    }
    let Ok(mut v) = serde_json::from_str::<Value>(text) else { return };
    let mut all = Vec::new();
    paths(&v, &mut Vec::new(), &mut all);
    let pick = |t: u16| all[idx(t, all.len())].clone();
    let pa = pick(e.a);
    let pb = pick(e.b);
    match e.kind % 13 {
        0 | 5 | 9 => {
            // delete node a from its parent
            if let Some((last, parent)) = pa.split_last() {
                match get_mut(&mut v, parent) {
                    Some(Value::Array(a)) if *last < a.len() => {
                        a.remove(*last);
                    }
                    Some(Value::Object(o)) => {
                        if let Some(k) = o.keys().nth(*last).cloned() {
                            o.remove(&k);
                        }
                    }
                    _ => {}
                }
            }
        }
        1 | 6 | 10 => {
            // duplicate node a within its parent array
            if let Some((last, parent)) = pa.split_last() {
                if let Some(Value::Array(a)) = get_mut(&mut v, parent) {
                    if *last < a.len() {
                        let c = a[*last].clone();
                        a.insert(*last, c);
                    }
                }
            }
        }
        2 | 12 => {
            // swap two elements of the parent array of a
            if let Some((last, parent)) = pa.split_last() {
                if let Some(Value::Array(a)) = get_mut(&mut v, parent) {
                    if !a.is_empty() {
                        let j = idx(e.b, a.len());
                        if *last < a.len() {
                            a.swap(*last, j);
                        }
                    }
                }
            }
        }
        3 | 4 => {
            // number tweak on the a-th number
            let nums: Vec<Vec<usize>> = all.iter().filter(|p| matches!(get_mut(&mut v.clone(), p), Some(Value::Number(_)))).cloned().collect();
            if nums.is_empty() {
                return;
            }
            let p = &nums[idx(e.a, nums.len())];
            let other = get_mut(&mut v, &nums[idx(e.b, nums.len())]).and_then(|x| x.as_u64());
            if let Some(node) = get_mut(&mut v, p) {
                if let Some(x) = node.as_i64() {
                    let nv: i64 = match e.v % 7 {
                        0 => 0,
                        1 => x.wrapping_sub(1),
                        2 => x.wrapping_add(1),
                        3 => other.map(|o| o as i64).unwrap_or(x),
                        4 => (e.v / 7) as i64,
                        5 => x ^ 1,
                        _ => -x,
                    };
                    let nv = if (x.unsigned_abs() <= cap) || (nv.unsigned_abs() <= cap) { nv.clamp(-(cap.max(x.unsigned_abs()) as i64), cap.max(x.unsigned_abs()) as i64) } else { nv };
                    *node = Value::from(nv);
                }
            }
        }
        7 => {
            // copy node b over node a
            if let Some(src) = get_mut(&mut v, &pb).cloned() {
                if let Some(dst) = get_mut(&mut v, &pa) {
                    *dst = src;
                }
            }
        }
        8 => {
            // rename an object key
            if let Some((last, parent)) = pa.split_last() {
                if let Some(Value::Object(o)) = get_mut(&mut v, parent) {
                    if let Some(k) = o.keys().nth(*last).cloned() {
                        if let Some(val) = o.remove(&k) {
                            o.insert(FIELDS[e.v as usize % FIELDS.len()].to_string(), val);
                        }
                    }
                }
            }
        }
        11 => {
            // type change
            if let Some(node) = get_mut(&mut v, &pa) {
                *node = match &*node {
                    Value::Number(n) => Value::String(n.to_string()),
                    Value::String(_) => Value::from(e.v),
                    Value::Null => Value::from(0),
                    Value::Array(a) if a.is_empty() => Value::Null,
                    other => other.clone(),
                };
            }
        }
        _ => {}
    }
    *text = v.to_string();
}

/// The order in which a world serializes its archetype tables depends on heap addresses. Sort the
/// tables of a valid serialization by their identifier so that an edit script means the same
/// thing in every run (any order is a valid serialization of the same world).
pub fn canonicalize(e: &Encoded) -> Encoded {
    match e {
        Encoded::Json(text) => {
            let Ok(mut v) = serde_json::from_str::<Value>(text) else { return e.clone() };
            if let Some(archs) = v.get_mut(0).and_then(|a| a.as_array_mut()) {
                archs.sort_by_key(|a| a.get(0).map(|i| i.to_string()).unwrap_or_default());
            }
            Encoded::Json(v.to_string())
        }
        Encoded::Tokens(t, enc) => {
            let toks = &t.0;
            if toks.len() < 2 || !is_start(&toks[1]) {
                return e.clone();
            }
            let kids = children(toks, 1);
            let mut parts: Vec<Vec<Token>> = kids.iter().map(|(a, b)| toks[*a..*b].to_vec()).collect();
            parts.sort_by_key(|p| format!("{:?}", &p[..p.len().min(3 + 16)]));
            let mut out: Vec<Token> = toks[..2].to_vec();
            for p in parts {
                out.extend(p);
            }
            let end = value_end(toks, 1);
            out.extend_from_slice(&toks[end - 1..]);
            Encoded::Tokens(serde_assert::Tokens(out), *enc)
        }
    }
}

pub fn apply_edits(base: &Encoded, edits: &[Edit]) -> Encoded {
    match base {
        Encoded::Json(s) => {
            let mut s = s.clone();
            for e in edits {
                // a quarter of the edits are structure-aware compound edits
                if e.kind >= 192 && macro_edit_json(&mut s, e) {
                    continue;
                }
                edit_json(&mut s, e);
            }
            Encoded::Json(s)
        }
        Encoded::Tokens(t, enc) => {
            let mut v = t.0.clone();
            for e in edits {
                if e.kind >= 192 && macro_edit_tokens(&mut v, e, enc.human_readable()) {
                    continue;
                }
                edit_tokens(&mut v, e);
            }
            Encoded::Tokens(serde_assert::Tokens(v), *enc)
        }
    }
}

/// The property quantifies over inputs whose declared lengths are bounded by the input size.
/// Payloads of the harness' components are all below 60000, so any number above 65536 in an
/// edited input may sit in a declared-length position (archetype `length`, allocator `length`):
/// such inputs are screened out *before* the library is called, and counted.
pub const MAX_NUMBER: u64 = 65_536;

pub fn exceeds_length_bound(e: &Encoded) -> bool {
    match e {
        Encoded::Tokens(t, _) => t.0.iter().any(|tok| match tok {
            Token::U8(_) | Token::U16(_) | Token::I8(_) | Token::I16(_) => false,
            Token::U32(x) => *x as u64 > MAX_NUMBER,
            Token::U64(x) => *x > MAX_NUMBER,
            Token::I32(x) => *x as i64 > MAX_NUMBER as i64,
            Token::I64(x) => *x > MAX_NUMBER as i64,
            Token::Seq { len: Some(l) } => *l as u64 > MAX_NUMBER,
            Token::Tuple { len } | Token::Struct { len, .. } | Token::TupleStruct { len, .. } => *len as u64 > MAX_NUMBER,
            Token::Map { len: Some(l) } => *l as u64 > MAX_NUMBER,
            _ => false,
        }),
        Encoded::Json(s) => {
            let b = s.as_bytes();
            let mut i = 0;
            while i < b.len() {
                if b[i].is_ascii_digit() {
                    let start = i;
                    while i < b.len() && (b[i].is_ascii_digit() || matches!(b[i], b'.' | b'e' | b'E' | b'+' | b'-')) {
                        i += 1;
                    }
                    let lit = &s[start..i];
                    let negative = start > 0 && b[start - 1] == b'-';
                    let inside_string = false;
                    let _ = inside_string;
                    if lit.bytes().all(|c| c.is_ascii_digit()) {
                        if !negative && lit.parse::<u64>().map_or(true, |v| v > MAX_NUMBER) {
                            return true;
                        }
                    } else if !negative {
                        // exponent / fraction forms: not produced by the serializer, value unclear
                        return true;
                    }
                } else {
                    i += 1;
                }
            }
            false
        }
    }
}

fn encoded_eq(a: &Encoded, b: &Encoded) -> bool {
    match (a, b) {
        (Encoded::Json(x), Encoded::Json(y)) => x == y,
        (Encoded::Tokens(x, _), Encoded::Tokens(y, _)) => format!("{:?}", x.0) == format!("{:?}", y.0),
        _ => false,
    }
}

// -------------------------------------------------------------------------------------------------
// one case
// -------------------------------------------------------------------------------------------------

#[derive(Clone, Debug, Default)]
pub struct DeserStats {
    pub base_entities: usize,
    pub edited_differs: bool,
    pub outcome_ok: bool,
    pub outcome_err: bool,
    pub err_class: String,
    pub leaked_on_error: u64,
    pub follow_ops: usize,
    pub base_failed: bool,
    pub screened: bool,
    pub leak_signature: String,
    pub leak_excluded: bool,
    pub boosted: bool,
}

pub struct DeserOutcome {
    pub stats: DeserStats,
    pub fail: Option<Fail>,
}

fn fail(props: &'static [&'static str], oracle: &'static str, msg: String) -> Option<Fail> {
    Some(Fail { props, oracle, msg, step: 0 })
}

pub fn run_deser_case<R: Reg>(case: &DeserCase, prop: &str, slot: usize) -> DeserOutcome {
    run_deser_case_known::<R>(case, prop, slot, &[])
}

pub fn run_deser_case_known<R: Reg>(case: &DeserCase, prop: &str, slot: usize, leak_known: &[String]) -> DeserOutcome {
    static CASES: std::sync::atomic::AtomicU64 = std::sync::atomic::AtomicU64::new(0);
    let n = CASES.fetch_add(1, Ordering::Relaxed);
    ledger::reset((n % 1000 + 1) * 1_000_000);
    talloc::begin_case(slot);
    set_quiet(true);
    let mut stats = DeserStats::default();
    let out = (|| {
        // 1. base world
        let mut interp = Interp::<R>::new(Exclusions::default());
        interp.prop = "C11".into();
        for op in &case.base {
            let r = catch_unwind(AssertUnwindSafe(|| interp.apply(op)));
            if !matches!(r, Ok(Ok(()))) {
                stats.base_failed = true;
                std::mem::forget(interp);
                return None;
            }
        }
        let Some(s0) = interp.slots[0].as_ref() else { return None };
        stats.base_entities = s0.model.ents.len();
        let base = match R::serialize(&s0.real, case.enc) {
            Ok(e) => canonicalize(&e),
            Err(_) => {
                stats.base_failed = true;
                return None;
            }
        };
        let edited = apply_edits(&base, &case.edits);
        stats.edited_differs = !encoded_eq(&base, &edited);
        if exceeds_length_bound(&edited) {
            stats.screened = true;
            return match catch_unwind(AssertUnwindSafe(|| interp.finish())) {
                _ => None,
            };
        }
        let edited = match apply_generation_boost(&edited, case.boost) {
            Some(e) => {
                stats.edited_differs = true;
                stats.boosted = true;
                e
            }
            None => edited,
        };
        // 2. deserialize the edited input
        ledger::take_errors();
        ledger::take_made();
        let live_before: HashSet<u64> = ledger::live_serials().into_iter().collect();
        let r = catch_unwind(AssertUnwindSafe(|| talloc::tracked(|| R::deserialize(&edited))));
        talloc::track_set(false);
        let errs = ledger::take_errors();
        if let Some(e) = errs.first() {
            std::mem::forget(interp);
            return fail(&["C11", "C04"], "double-drop-in-deserialize", format!("while deserializing the edited input: {e}"));
        }
        talloc::check_quarantine();
        if let Some(d) = talloc::describe(&talloc::errors()) {
            std::mem::forget(interp);
            return fail(&["C11", "C05"], "allocator-in-deserialize", format!("while deserializing the edited input: {d}"));
        }
        let world = match r {
            Err(p) => {
                let msg = p.downcast_ref::<String>().cloned().or_else(|| p.downcast_ref::<&str>().map(|s| s.to_string())).unwrap_or_else(|| "panic".into());
                std::mem::forget(interp);
                return fail(&["C11"], "panic-in-deserialize", format!("deserialization panicked instead of returning an error: {msg}"));
            }
            Ok(Err(e)) => {
                stats.outcome_err = true;
                // class of the error: its first words with numbers and positions stripped
                let head = e.split(" at line").next().unwrap_or("");
                let head: String = head.split(|c: char| c == ':' || c == ',' || c == '(' || c == '`' || c == '[').next().unwrap_or("").chars().map(|c| if c.is_ascii_digit() { '#' } else { c }).collect();
                stats.err_class = head.split_whitespace().take(4).collect::<Vec<_>>().join(" ");
                // values constructed during the failed attempt and never dropped (reported, see DESIGN)
                let live_after = ledger::live_serials();
                stats.leaked_on_error = live_after.iter().filter(|s| !live_before.contains(s)).count() as u64;
                stats.leak_signature = format!("deser-leak:{}:{}", if case.enc.human_readable() { "row-wise" } else { "column-wise" }, stats.err_class);
                if prop == "C04" && stats.leaked_on_error > 0 {
                    if leak_known.iter().any(|k| stats.leak_signature.starts_with(k.as_str())) {
                        stats.leak_excluded = true;
                    } else {
                        let first = live_after.iter().find(|s| !live_before.contains(s)).copied().unwrap_or(0);
                        std::mem::forget(interp);
                        return fail(&["C04"], "leak-on-failed-deserialization", format!("deserialization returned Err ({e}) but {} values it had constructed were never dropped, e.g. serial {first:#x} [{}]", stats.leaked_on_error, stats.leak_signature));
                    }
                }
                // the base world must be unaffected
                if crate::interp::LIGHT.load(Ordering::Relaxed) {
                    // interpreter tier: the per-step bookkeeping of the oracles is off; read every
                    // value of the base world and drop it, under the eyes of the interpreter
                    let r = catch_unwind(AssertUnwindSafe(|| {
                        let mut bad = None;
                        if let Some(s) = interp.slots[0].as_mut() {
                            for row in R::snapshot(&mut s.real) {
                                for (c, o) in row.comps.iter().enumerate() {
                                    if let Some(o) = o {
                                        if !o.ok && bad.is_none() {
                                            bad = Some(format!("entity {:?} component {c}: payload {} serial {:#x} is not a live value", row.id, o.payload, o.serial));
                                        }
                                    }
                                }
                            }
                        }
                        let slots = std::mem::take(&mut interp.slots);
                        drop(slots);
                        bad
                    }));
                    return match r {
                        Ok(None) => None,
                        Ok(Some(m)) => fail(&["C11"], "base-world-damaged", format!("after a failed deserialization the original world is damaged: {m}")),
                        Err(_) => fail(&["C11"], "base-world-damaged", "reading or dropping the original world panicked after a failed deserialization".into()),
                    };
                }
                let r = catch_unwind(AssertUnwindSafe(|| {
                    interp.muted.insert("exactly-once");
                    interp.muted.insert("exactly-once-count");
                    interp.check_all()
                }));
                std::mem::forget(interp);
                return match r {
                    Ok(Ok(())) => None,
                    Ok(Err(f)) => fail(&["C11"], "base-world-damaged", format!("after a failed deserialization the original world fails [{}]: {}", f.oracle, f.msg)),
                    Err(_) => fail(&["C11"], "base-world-damaged", "checking the original world panicked after a failed deserialization".into()),
                };
            }
            Ok(Ok(w)) => w,
        };
        stats.outcome_ok = true;
        // 3. the world must be fully valid
        let mut world = world;
        let d = R::dump(&world);
        if let Err(e) = audit_structure(&d, R::N) {
            std::mem::forget(world);
            std::mem::forget(interp);
            return fail(&["C11", "C13"], "invalid-world", format!("deserialization returned Ok but the world is inconsistent: {e}"));
        }
        let snap = match catch_unwind(AssertUnwindSafe(|| snapshot_map::<R>(&mut world))) {
            Ok(Ok(s)) => s,
            Ok(Err(e)) => {
                std::mem::forget(world);
                std::mem::forget(interp);
                return fail(&["C11"], "invalid-world", format!("deserialization returned Ok but {e}"));
            }
            Err(_) => {
                std::mem::forget(world);
                std::mem::forget(interp);
                return fail(&["C11"], "invalid-world", "querying the deserialized world panicked".into());
            }
        };
        if R::len(&world) != snap.len() {
            let (l, s) = (R::len(&world), snap.len());
            std::mem::forget(world);
            std::mem::forget(interp);
            return fail(&["C11", "C13"], "invalid-world", format!("deserialization returned Ok but len() = {l} while {s} entities are stored"));
        }
        // adopt as its own reference model
        let mut model = Model::default();
        let mut ids: Vec<_> = snap.keys().copied().collect();
        ids.sort_by_key(|id| crate::interp::id_parts(*id));
        for id in ids {
            let comps = &snap[&id];
            if comps.iter().flatten().any(|o| !o.ok) {
                std::mem::forget(world);
                std::mem::forget(interp);
                return fail(&["C11", "C05"], "invalid-world", format!("deserialization returned Ok but {id:?} holds a value that is not a valid live value of its type"));
            }
            model.ents.insert(id, comps.iter().map(|o| o.map(|o| MVal { payload: o.payload, serial: o.serial })).collect());
            model.live.push(id);
            model.issued.push(id);
            model.issued_set.insert(id);
        }
        let res = R::res_snapshot(&world);
        for i in 0..4 {
            model.res[i] = res[i].payload;
            model.res_serial[i] = res[i].serial;
        }
        // the base world goes away; the deserialized one takes slot 0
        let old = interp.slots[0].replace(Slot { real: world, model, shadow: None, deserialized: true });
        talloc::tracked(|| drop(old));
        interp.reset_tracking();
        let r = catch_unwind(AssertUnwindSafe(|| interp.check_all()));
        match r {
            Ok(Ok(())) => {}
            Ok(Err(f)) => {
                std::mem::forget(interp);
                return fail(&["C11"], "invalid-world", format!("deserialization returned Ok but the world fails [{}]: {}", f.oracle, f.msg));
            }
            Err(_) => {
                std::mem::forget(interp);
                return fail(&["C11"], "invalid-world", "checking the deserialized world panicked".into());
            }
        }
        // 4. it must keep behaving
        for op in &case.follow {
            stats.follow_ops += 1;
            let r = catch_unwind(AssertUnwindSafe(|| interp.apply(op)));
            match r {
                Ok(Ok(())) => {}
                Ok(Err(f)) => {
                    std::mem::forget(interp);
                    return fail(&["C11"], "misbehaves-later", format!("a world obtained from edited input later fails [{}] at follow-up step {}: {}", f.oracle, stats.follow_ops, f.msg));
                }
                Err(p) => {
                    let msg = p.downcast_ref::<String>().cloned().or_else(|| p.downcast_ref::<&str>().map(|s| s.to_string())).unwrap_or_else(|| "panic".into());
                    std::mem::forget(interp);
                    return fail(&["C11"], "misbehaves-later", format!("a world obtained from edited input later panics during {} (follow-up step {}): {msg}", op.name(), stats.follow_ops));
                }
            }
        }
        match catch_unwind(AssertUnwindSafe(|| interp.finish())) {
            Ok((_, Ok(()))) => None,
            Ok((_, Err(f))) => fail(&["C11"], "misbehaves-at-drop", format!("dropping a world obtained from edited input fails [{}]: {}", f.oracle, f.msg)),
            Err(_) => fail(&["C11"], "misbehaves-at-drop", "dropping a world obtained from edited input panicked".into()),
        }
    })();
    set_quiet(false);
    talloc::track_set(false);
    // for C04 only its own oracle (and double drops) decide; everything else is C11's business
    let out = match out {
        Some(f) if prop == "C04" && !f.props.contains(&"C04") => None,
        other => other,
    };
    DeserOutcome { stats, fail: out }
}

// -------------------------------------------------------------------------------------------------
// runner
// -------------------------------------------------------------------------------------------------

fn case_strategy(thorough: bool) -> BoxedStrategy<DeserCase> {
    let mut base = Profile::base();
    base.round_trip = 0;
    base.clone_to = 0;
    base.clone_from = 0;
    base.eq = 0;
    base.debug = 0;
    base.drop_world = 0;
    base.query = 1;
    base.par_query = 0;
    base.entry_query = 0;
    base.entries_query = 0;
    base.w0_bias = 100;
    base.max_ops = if thorough { 24 } else { 14 };
    base.remove = 8;
    let mut follow = Profile::base();
    follow.max_ops = if thorough { 40 } else { 24 };
    follow.w0_bias = 90;
    follow.round_trip = 5;
    let edit = (any::<u8>(), any::<u16>(), any::<u16>(), any::<u16>()).prop_map(|(kind, a, b, v)| Edit { kind, a, b, v });
    let general = (history_strategy(&base), prop::sample::select(ENCS.to_vec()), prop::collection::vec(edit, 1..=4), history_strategy(&follow))
        .prop_map(|(base, enc, edits, follow)| DeserCase { base, enc, edits, follow, boost: None });
    // generation wrap-around: a valid JSON serialization in which one identifier's generation is
    // raised to u64::MAX (or one below); the follow-up history removes and inserts a lot, so that
    // the slot is freed and reused across the wrap
    let mut churn = Profile::base();
    churn.max_ops = if thorough { 40 } else { 24 };
    churn.w0_bias = 100;
    churn.remove = 34;
    churn.insert = 30;
    churn.extend = 8;
    churn.clear = 2;
    churn.round_trip = 3;
    churn.par_query = 0;
    let wrap = (history_strategy(&base), history_strategy(&churn), any::<u16>(), 0u8..2)
        .prop_map(|(base, follow, which, below)| DeserCase { base, enc: Enc::Json, edits: Vec::new(), follow, boost: Some((which, below)) });
    prop_oneof![9 => general, 1 => wrap].boxed()
}

#[derive(Clone, Debug, Default)]
pub struct DeserReport {
    pub registry: String,
    pub evaluations: u64,
    pub nontrivial: HashSet<u64>,
    pub classes: BTreeMap<String, u64>,
    pub samples: Vec<serde_json::Value>,
    pub failure: Option<DeserReplay>,
    pub wall_s: f64,
}

/// Deterministic sample of edited-input cases for the interpreter tier (Miri): drawn from the same
/// strategy as the native run, run natively first; kept when the edited input differs from the
/// valid serialization of a non-empty world, the library was called, and no oracle fired. Half of
/// the sample (as far as available) are inputs the library accepted. A pure function of the arguments.
pub fn sample_deser_cases<R: Reg>(seed: u64, n: usize) -> Vec<DeserCase> {
    use proptest::strategy::{Strategy, ValueTree};
    let mut h = std::collections::hash_map::DefaultHasher::new();
    (seed, "sample-deser", R::NAME).hash(&mut h);
    let s = h.finish();
    let mut seed_bytes = [0u8; 32];
    for (i, b) in seed_bytes.iter_mut().enumerate() {
        *b = (s.rotate_left(i as u32 * 7) as u8) ^ (i as u8).wrapping_mul(41);
    }
    let mut runner = TestRunner::new_with_rng(
        PtConfig { failure_persistence: None, rng_seed: RngSeed::Fixed(s), ..PtConfig::default() },
        proptest::test_runner::TestRng::from_seed(proptest::test_runner::RngAlgorithm::ChaCha, &seed_bytes),
    );
    let strat = case_strategy(false);
    let (mut oks, mut errs) = (Vec::new(), Vec::new());
    let mut attempts = 0;
    while (oks.len() < n / 2 || errs.len() < n - n / 2) && attempts < n * 400 {
        attempts += 1;
        let Ok(tree) = strat.new_tree(&mut runner) else { continue };
        let case = tree.current();
        if case.base.len() > 10 || case.follow.len() > 12 {
            continue;
        }
        let out = run_deser_case::<R>(&case, "C11", 0);
        let st = &out.stats;
        if out.fail.is_some() || !st.edited_differs || st.base_entities == 0 || st.screened || st.base_failed {
            continue;
        }
        if st.outcome_ok && oks.len() < n / 2 {
            oks.push(case);
        } else if st.outcome_err && errs.len() < n - n / 2 {
            errs.push(case);
        }
    }
    oks.extend(errs);
    oks
}

pub fn run_deser<R: Reg>(cfg: &crate::runner::Config) -> DeserReport {
    let t0 = std::time::Instant::now();
    let report = Arc::new(Mutex::new(DeserReport { registry: R::NAME.to_string(), ..Default::default() }));
    let stop = Arc::new(AtomicBool::new(false));
    std::thread::scope(|scope| {
        for wi in 0..cfg.workers {
            let report = report.clone();
            let stop = stop.clone();
            let cfg = cfg.clone();
            std::thread::Builder::new()
                .stack_size(64 << 20)
                .spawn_scoped(scope, move || {
                    let mut h = std::collections::hash_map::DefaultHasher::new();
                    (cfg.seed, wi as u64, R::NAME, "deser").hash(&mut h);
                    let s = h.finish();
                    let mut seed_bytes = [0u8; 32];
                    for (i, b) in seed_bytes.iter_mut().enumerate() {
                        *b = (s.rotate_left(i as u32 * 7) as u8) ^ (i as u8).wrapping_mul(41);
                    }
                    let mut runner = TestRunner::new_with_rng(
                        PtConfig { cases: cfg.cases_per_worker, failure_persistence: None, max_shrink_iters: 3000, rng_seed: RngSeed::Fixed(s), ..PtConfig::default() },
                        proptest::test_runner::TestRng::from_seed(proptest::test_runner::RngAlgorithm::ChaCha, &seed_bytes),
                    );
                    let local = std::cell::RefCell::new(DeserReport::default());
                    let failed = std::cell::Cell::new(false);
                    let result = runner.run(&case_strategy(cfg.thorough), |case| {
                        if stop.load(Ordering::Relaxed) && !failed.get() {
                            return Ok(());
                        }
                        let text = serde_json::to_string(&DeserReplay { property: cfg.prop.clone(), engine: "deser".into(), registry: R::NAME.into(), pool_digest: cfg.pool_digest.clone(), seed: cfg.seed, case: case.clone(), failure: "fatal signal while this case was running".into(), oracle: "crash".into() }).unwrap_or_default();
                        crate::crash::announce(wi, &text);
                        let out = run_deser_case_known::<R>(&case, &cfg.prop, wi, &cfg.excl.deser_leak_known);
                        crate::crash::clear(wi);
                        if !failed.get() {
                            let mut l = local.borrow_mut();
                            l.evaluations += 1;
                            let st = &out.stats;
                            let mut add = |k: String, v: u64| *l.classes.entry(k).or_insert(0) += v;
                            add("edited_input_differs".into(), st.edited_differs as u64);
                            add("outcome_ok_after_edit".into(), (st.outcome_ok && st.edited_differs) as u64);
                            add("outcome_err".into(), st.outcome_err as u64);
                            add("base_history_unusable".into(), st.base_failed as u64);
                            add("screened_out_number_above_65536_before_calling_the_library".into(), st.screened as u64);
                            add("values_leaked_by_failed_deserialization".into(), st.leaked_on_error);
                            add("follow_up_ops_on_accepted_worlds".into(), st.follow_ops as u64);
                            add(format!("enc_{:?}", case.enc), 1);
                            add("generation_raised_to_u64_max_before_the_follow_up".into(), st.boosted as u64);
                            if st.outcome_err {
                                add(format!("err: {}", st.err_class), 1);
                                if st.leaked_on_error > 0 {
                                    add(format!("{}{}", st.leak_signature, if st.leak_excluded { " (known finding, excluded)" } else { "" }), 1);
                                }
                            }
                            if out.fail.is_none() && st.edited_differs && st.base_entities > 0 && (st.outcome_ok || st.outcome_err) {
                                let mut h2 = std::collections::hash_map::DefaultHasher::new();
                                serde_json::to_string(&case).unwrap().hash(&mut h2);
                                if l.nontrivial.insert(h2.finish()) && l.samples.len() < 2 && case.base.len() < 8 {
                                    l.samples.push(serde_json::json!({"registry": R::NAME, "outcome": if st.outcome_ok { "Ok, then follow-up history" } else { "Err" }, "case": case}));
                                }
                            }
                        }
                        match out.fail {
                            Some(f) => {
                                failed.set(true);
                                Err(TestCaseError::fail(format!("[{}] {}", f.oracle, f.msg)))
                            }
                            None => Ok(()),
                        }
                    });
                    let mut local = local.into_inner();
                    if let Err(TestError::Fail(reason, case)) = result {
                        stop.store(true, Ordering::Relaxed);
                        let out = run_deser_case_known::<R>(&case, &cfg.prop, wi, &cfg.excl.deser_leak_known);
                        let (msg, oracle) = match out.fail {
                            Some(f) => (f.msg, f.oracle.to_string()),
                            None => (reason.to_string(), String::new()),
                        };
                        local.failure = Some(DeserReplay { property: cfg.prop.clone(), engine: "deser".into(), registry: R::NAME.into(), pool_digest: cfg.pool_digest.clone(), seed: cfg.seed, case, failure: msg, oracle });
                    }
                    let mut r = report.lock().unwrap();
                    r.evaluations += local.evaluations;
                    r.nontrivial.extend(local.nontrivial);
                    for (k, v) in local.classes {
                        *r.classes.entry(k).or_insert(0) += v;
                    }
                    if r.samples.len() < 3 {
                        r.samples.extend(local.samples.into_iter().take(1));
                    }
                    if let Some(f) = local.failure {
                        let size = |c: &DeserCase| c.base.len() + c.follow.len() + c.edits.len();
                        if r.failure.as_ref().map_or(true, |old| size(&f.case) < size(&old.case)) {
                            r.failure = Some(f);
                        }
                    }
                })
                .unwrap();
        }
    });
    let mut r = Arc::try_unwrap(report).ok().unwrap().into_inner().unwrap();
    r.wall_s = t0.elapsed().as_secs_f64();
    r
}

pub fn replay_deser<R: Reg>(r: &DeserReplay) -> Option<String> {
    run_deser_case::<R>(&r.case, &r.property, 0).fail.map(|f| format!("[{}] {}", f.oracle, f.msg))
}
