//! C17: panic injection. For a generated small world and a generated victim operation, the
//! un-faulted run counts how many times each kind of user callback (Clone, Drop, PartialEq, Debug,
//! Serialize, Deserialize, system body) is invoked; then for EVERY kind and EVERY position k the
//! world is rebuilt, the fuse is armed at (kind, k) and the operation is repeated: the panic must
//! reach the caller, every world must still be droppable, and neither then nor afterwards may a
//! value be dropped twice or freed memory be touched. Leaks are allowed.

use crate::interp::{Exclusions, Interp, Slot};
use crate::ops::{history_strategy, Op, Profile};
use crate::reg::{Enc, QMode, Reg, ENCS};
use crate::runner::set_quiet;
use proptest::prelude::*;
use proptest::test_runner::{Config as PtConfig, RngSeed, TestCaseError, TestError, TestRunner};
use serde::{Deserialize, Serialize};
use std::collections::{BTreeMap, HashSet};
use std::hash::{Hash, Hasher};
use std::panic::{catch_unwind, AssertUnwindSafe};
use std::sync::atomic::{AtomicBool, Ordering};
use std::sync::{Arc, Mutex};
use vcommon::ledger::{self, Callback, FusePanic, CALLBACK_NAMES, NCALLBACKS};
use vcommon::talloc;

#[derive(Clone, Debug, Serialize, Deserialize, PartialEq)]
pub enum Victim {
    Remove { t: u16 },
    Clear,
    EntryAdd { t: u16, comp: u8, p: u32 },
    EntryRemove { t: u16, comp: u8 },
    CloneWorld,
    /// `prep`: 0 nothing, 1 clear the destination first, 2 remove its entities one by one,
    /// 3 clear + shrink_to_fit; `swap`: destination is world 0 instead of world 1
    CloneFrom { prep: u8, swap: bool },
    EqWorlds,
    DebugFmt,
    Serialize { enc: Enc },
    Deserialize { enc: Enc },
    DropWorld,
    RunSystem { q: u16, salt: Option<u32> },
    Query { q: u16, mode: QMode, salt: Option<u32> },
    ShrinkToFit,
    ExtendClones { shape: u16, n: u8, p: u32 },
}

impl Victim {
    pub fn name(&self) -> &'static str {
        match self {
            Victim::Remove { .. } => "remove",
            Victim::Clear => "clear",
            Victim::EntryAdd { .. } => "Entry::add",
            Victim::EntryRemove { .. } => "Entry::remove",
            Victim::CloneWorld => "clone",
            Victim::CloneFrom { .. } => "clone_from",
            Victim::EqWorlds => "eq",
            Victim::DebugFmt => "Debug",
            Victim::Serialize { .. } => "serialize",
            Victim::Deserialize { .. } => "deserialize",
            Victim::DropWorld => "drop(world)",
            Victim::RunSystem { .. } => "run_system",
            Victim::Query { .. } => "query",
            Victim::ShrinkToFit => "shrink_to_fit",
            Victim::ExtendClones { .. } => "extend(entities!((..); n))",
        }
    }
}

#[derive(Clone, Debug, Serialize, Deserialize)]
pub struct FaultCase {
    pub base: Vec<Op>,
    pub victim: Victim,
}

#[derive(Clone, Debug, Serialize, Deserialize)]
pub struct FaultReplay {
    pub property: String,
    pub engine: String,
    pub registry: String,
    pub pool_digest: String,
    pub seed: u64,
    pub case: FaultCase,
    /// callback kind index and position of the failing injection
    pub kind: u8,
    pub k: u64,
    #[serde(default)]
    pub failure: String,
    #[serde(default)]
    pub oracle: String,
}

fn idx(t: u16, len: usize) -> usize {
    (t as usize * len) >> 16
}

struct Built<R: Reg> {
    interp: Interp<R>,
}

fn build<R: Reg>(base: &[Op]) -> Option<Built<R>> {
    let mut interp = Interp::<R>::new(Exclusions::default());
    interp.prop = "C17".into();
    interp.checks = false;
    for op in base {
        let r = catch_unwind(AssertUnwindSafe(|| interp.apply(op)));
        if !matches!(r, Ok(Ok(()))) {
            std::mem::forget(interp);
            return None;
        }
    }
    Some(Built { interp })
}

/// Un-faulted preparation of the victim operation (runs before the fuse is armed).
fn prepare_victim<R: Reg>(b: &mut Built<R>, v: &Victim) {
    if let Victim::CloneFrom { prep, swap } = v {
        let d = if *swap { 0 } else { 1 };
        let slot = b.interp.world_mut(d);
        match prep % 4 {
            1 => R::clear(&mut slot.real),
            2 => {
                for id in slot.model.live.clone() {
                    R::remove(&mut slot.real, id);
                }
            }
            3 => {
                R::clear(&mut slot.real);
                R::shrink_to_fit(&mut slot.real);
            }
            _ => {}
        }
    }
}

/// Run the victim operation. Returns Err(payload) if it unwound.
fn run_victim<R: Reg>(b: &mut Built<R>, v: &Victim) -> Result<(), Box<dyn std::any::Any + Send>> {
    let interp = &mut b.interp;
    // make sure both slots exist
    let _ = interp.world_mut(0);
    let _ = interp.world_mut(1);
    let live: Vec<_> = interp.slots[0].as_ref().unwrap().model.live.clone();
    let shapes = R::shapes();
    catch_unwind(AssertUnwindSafe(|| {
        let (s0, s1) = {
            let (a, b) = interp.slots.split_at_mut(1);
            (a[0].as_mut().unwrap(), b[0].as_mut().unwrap())
        };
        match v {
            Victim::Remove { t } => {
                if !live.is_empty() {
                    R::remove(&mut s0.real, live[idx(*t, live.len())]);
                }
            }
            Victim::Clear => R::clear(&mut s0.real),
            Victim::EntryAdd { t, comp, p } => {
                if !live.is_empty() && R::N > 0 {
                    let c = *comp as usize % R::N;
                    R::entry_add(&mut s0.real, live[idx(*t, live.len())], c, R::norm(c, *p % 60_000));
                }
            }
            Victim::EntryRemove { t, comp } => {
                if !live.is_empty() && R::N > 0 {
                    R::entry_remove(&mut s0.real, live[idx(*t, live.len())], *comp as usize % R::N);
                }
            }
            Victim::CloneWorld => {
                let c = R::clone_world(&s0.real);
                drop(c);
            }
            Victim::CloneFrom { swap, .. } => {
                if *swap {
                    R::clone_from(&mut s0.real, &s1.real)
                } else {
                    R::clone_from(&mut s1.real, &s0.real)
                }
            }
            Victim::EqWorlds => {
                let _ = R::eq(&s0.real, &s1.real);
                let _ = R::eq(&s0.real, &s0.real);
            }
            Victim::DebugFmt => {
                let _ = R::debug(&s0.real);
            }
            Victim::Serialize { enc } => {
                let _ = R::serialize(&s0.real, *enc);
            }
            Victim::Deserialize { enc } => {
                // serialization itself must not be hit by the fuse: it is armed for De only
                if let Ok(e) = R::serialize(&s0.real, *enc) {
                    if let Ok(w) = R::deserialize(&e) {
                        drop(w);
                    }
                }
            }
            Victim::DropWorld => {
                let w = std::mem::replace(&mut s0.real, R::new_world([1, 2, 0, 4]));
                drop(w);
            }
            Victim::RunSystem { q, salt } => {
                let n = R::queries().len();
                let _ = R::run_query(&mut s0.real, idx(*q, n), QMode::System, *salt);
            }
            Victim::Query { q, mode, salt } => {
                let n = R::queries().len();
                let _ = R::run_query(&mut s0.real, idx(*q, n), *mode, *salt);
            }
            Victim::ShrinkToFit => R::shrink_to_fit(&mut s0.real),
            Victim::ExtendClones { shape, n, p } => {
                let (mask, _, _) = shapes[idx(*shape, shapes.len())];
                if R::extend_modes(mask, 0) >> 2 & 1 == 1 && mask != 0 {
                    let row: Vec<u32> = (0..R::N).map(|c| R::norm(c, (*p).wrapping_add(c as u32) % 60_000)).collect();
                    let rows: Vec<Vec<u32>> = (0..(*n as usize % 6 + 1)).map(|_| row.clone()).collect();
                    let _ = R::extend(&mut s0.real, mask, 0, 2, &rows);
                }
            }
        }
    }))
}

/// "then or later": after the panic was caught, whatever the safe API still hands out must be a
/// live value. Every row of a full query and every entity reachable through an identifier the
/// harness ever received is observed; an observed value whose ledger entry says "already dropped"
/// (or whose self-check fails) is memory the library must not touch any more. Panics of the
/// library during these reads are tolerated (the statement does not promise a usable world).
fn use_later<R: Reg>(b: &mut Built<R>, stats: &mut FaultStats) -> Option<String> {
    for w in 0..2 {
        let Some(slot) = b.interp.slots[w].as_mut() else { continue };
        let ids: Vec<_> = slot.model.issued.clone();
        let real = &mut slot.real;
        let r = catch_unwind(AssertUnwindSafe(|| {
            let mut bad: Option<String> = None;
            let mut seen = 0u64;
            for row in R::snapshot(real) {
                for (c, o) in row.comps.iter().enumerate() {
                    if let Some(o) = o {
                        seen += 1;
                        if !o.ok && bad.is_none() {
                            bad = Some(format!("world {w}: a query afterwards yields, for entity {:?}, component {c}, a value that was already dropped or is garbage (payload {}, serial {:#x})", row.id, o.payload, o.serial));
                        }
                    }
                }
            }
            for id in &ids {
                if let Some(comps) = R::entry_snapshot(real, *id) {
                    for (c, o) in comps.iter().enumerate() {
                        if let Some(o) = o {
                            seen += 1;
                            if !o.ok && bad.is_none() {
                                bad = Some(format!("world {w}: entry({id:?}) afterwards yields, for component {c}, a value that was already dropped or is garbage (payload {}, serial {:#x})", o.payload, o.serial));
                            }
                        }
                    }
                }
            }
            (bad, seen)
        }));
        match r {
            Ok((Some(bad), _)) => return Some(bad),
            Ok((None, seen)) => stats.later_values_observed += seen,
            Err(_) => stats.later_use_panicked += 1,
        }
    }
    None
}

/// The second half of "later": the caught worlds are *changed* through the safe API. One entity of
/// every compiled shape that an entity of the world had is inserted, every identifier ever issued
/// is removed in issue order (rows are swapped into the holes, so the bookkeeping of every other
/// row is exercised), the new entities change shape and are observed, and the world is cleared.
/// Nothing is compared with a model (a caught world need not be consistent); the caller checks the
/// drop ledger and the allocator afterwards, and every value observed on the way must be live.
fn mutate_later<R: Reg>(b: &mut Built<R>, stats: &mut FaultStats) -> Option<String> {
    for w in 0..2 {
        let Some(slot) = b.interp.slots[w].as_mut() else { continue };
        let ids: Vec<_> = slot.model.issued.clone();
        let mut masks: Vec<u32> = Vec::new();
        for comps in slot.model.ents.values() {
            let m = comps.iter().enumerate().fold(0u32, |m, (i, c)| if c.is_some() { m | 1 << i } else { m });
            if !masks.contains(&m) && R::shapes().iter().any(|s| s.0 == m) {
                masks.push(m);
            }
        }
        masks.sort_unstable();
        masks.truncate(4);
        let real = &mut slot.real;
        let r = catch_unwind(AssertUnwindSafe(|| {
            let mut bad: Option<String> = None;
            let mut check = |what: &str, comps: &[Option<vcommon::comps::Obs>]| {
                for (c, o) in comps.iter().enumerate() {
                    if let Some(o) = o {
                        if !o.ok && bad.is_none() {
                            bad = Some(format!("world {w}: {what} yields, for component {c}, a value that was already dropped or is garbage (payload {}, serial {:#x})", o.payload, o.serial));
                        }
                    }
                }
            };
            let mut fresh = Vec::new();
            for (i, m) in masks.iter().enumerate() {
                let p: Vec<u32> = (0..R::N).map(|c| R::norm(c, 40_000 + (i * 64 + c) as u32)).collect();
                fresh.push(R::insert(real, *m, 0, &p));
            }
            for id in &ids {
                R::remove(real, *id);
            }
            for (i, id) in fresh.iter().enumerate() {
                if R::N > 0 {
                    let c = i % R::N;
                    R::entry_add(real, *id, c, R::norm(c, 41_000 + i as u32));
                    R::entry_remove(real, *id, (c + 1) % R::N);
                }
                if let Some(comps) = R::entry_snapshot(real, *id) {
                    check("entry() of an entity inserted after the caught panic", &comps);
                }
            }
            for row in R::snapshot(real) {
                check("a query after later insertions and removals", &row.comps);
            }
            R::clear(real);
            bad
        }));
        match r {
            Ok(Some(bad)) => return Some(bad),
            Ok(None) => stats.later_mutations += 1,
            Err(_) => stats.later_use_panicked += 1,
        }
    }
    None
}

#[derive(Clone, Debug)]
pub struct FaultFail {
    pub oracle: &'static str,
    pub msg: String,
    pub kind: u8,
    pub k: u64,
}

#[derive(Clone, Debug, Default)]
pub struct FaultStats {
    pub injections: u64,
    pub fired: u64,
    pub fired_multi: u64,
    pub per_op_kind: BTreeMap<String, u64>,
    pub unusable: bool,
    pub excluded: BTreeMap<String, u64>,
    pub later_values_observed: u64,
    pub later_use_panicked: u64,
    pub later_mutations: u64,
}

fn callback(i: usize) -> Callback {
    [Callback::Clone, Callback::Drop, Callback::Eq, Callback::Fmt, Callback::Ser, Callback::De, Callback::Body][i]
}

/// All injections of one case. `only`: restrict to one (kind, k) (replay).
pub fn run_fault_case<R: Reg>(case: &FaultCase, slot: usize, only: Option<(u8, u64)>, known: &[String]) -> (FaultStats, Option<FaultFail>) {
    static CASES: std::sync::atomic::AtomicU64 = std::sync::atomic::AtomicU64::new(0);
    let mut stats = FaultStats::default();
    set_quiet(true);
    let result = (|| {
        // un-faulted run: count the callbacks
        let n = CASES.fetch_add(1, Ordering::Relaxed);
        ledger::reset((n % 1000 + 1) * 1_000_000);
        talloc::begin_case(slot);
        let Some(mut b) = build::<R>(&case.base) else {
            stats.unusable = true;
            return None;
        };
        // is there an archetype with >= 2 columns and >= 2 rows?
        let multi = b.interp.slots[0].as_ref().map_or(false, |s| R::dump(&s.real).archetypes.iter().any(|a| a.columns.len() >= 2 && a.length >= 2));
        let _ = b.interp.world_mut(0);
        let _ = b.interp.world_mut(1);
        prepare_victim::<R>(&mut b, &case.victim);
        ledger::reset_ticks();
        let r = run_victim::<R>(&mut b, &case.victim);
        let ticks = ledger::ticks();
        if r.is_err() {
            // the operation panics without any injection: not this property's business
            stats.unusable = true;
            std::mem::forget(b);
            return None;
        }
        let r = catch_unwind(AssertUnwindSafe(|| drop(b)));
        if r.is_err() {
            stats.unusable = true;
            return None;
        }
        let _ = ledger::take_errors();
        for kind in 0..NCALLBACKS {
            // for a deserialization victim only Deserialize callbacks are the library's doing
            if matches!(case.victim, Victim::Deserialize { .. }) && kind != Callback::De as usize {
                continue;
            }
            let sig = format!("{}/{}", case.victim.name(), CALLBACK_NAMES[kind]);
            let total = ticks[kind].min(48);
            for k in 0..total {
                if let Some((ok, okk)) = only {
                    if ok as usize != kind || okk != k {
                        continue;
                    }
                }
                if known.iter().any(|s| s == &sig) {
                    *stats.excluded.entry(sig.clone()).or_insert(0) += 1;
                    continue;
                }
                let n = CASES.fetch_add(1, Ordering::Relaxed);
                ledger::reset((n % 1000 + 1) * 1_000_000);
                talloc::begin_case(slot);
                let Some(mut b) = build::<R>(&case.base) else {
                    stats.unusable = true;
                    return None;
                };
                let _ = b.interp.world_mut(0);
                let _ = b.interp.world_mut(1);
                prepare_victim::<R>(&mut b, &case.victim);
                ledger::take_errors();
                ledger::arm(callback(kind), k);
                let r = run_victim::<R>(&mut b, &case.victim);
                let fired = ledger::disarm();
                stats.injections += 1;
                *stats.per_op_kind.entry(sig.clone()).or_insert(0) += 1;
                let fail = |oracle: &'static str, msg: String| Some(FaultFail { oracle, msg, kind: kind as u8, k });
                if fired {
                    stats.fired += 1;
                    if multi {
                        stats.fired_multi += 1;
                    }
                    match &r {
                        Ok(()) => {
                            // Debug / serializers may legitimately turn a panic into ... no: a panic is a panic
                            std::mem::forget(b);
                            return fail("panic-swallowed", format!("a panic injected into the {}-th {} call during {} did not reach the caller", k, CALLBACK_NAMES[kind], case.victim.name()));
                        }
                        Err(p) => {
                            if p.downcast_ref::<FusePanic>().is_none() {
                                let msg = p.downcast_ref::<String>().cloned().or_else(|| p.downcast_ref::<&str>().map(|s| s.to_string())).unwrap_or_default();
                                std::mem::forget(b);
                                return fail("other-panic", format!("after a panic injected into the {k}-th {} call during {}, a different panic reached the caller: {msg}", CALLBACK_NAMES[kind], case.victim.name()));
                            }
                        }
                    }
                } else if r.is_err() {
                    std::mem::forget(b);
                    continue;
                }
                // right after unwinding
                let errs = ledger::take_errors();
                if let Some(e) = errs.first() {
                    std::mem::forget(b);
                    return fail("double-drop-during-unwind", format!("panic in the {k}-th {} call during {}: while unwinding, {e}", CALLBACK_NAMES[kind], case.victim.name()));
                }
                talloc::check_quarantine();
                if let Some(d) = talloc::describe(&talloc::errors()) {
                    std::mem::forget(b);
                    return fail("memory-during-unwind", format!("panic in the {k}-th {} call during {}: {d}", CALLBACK_NAMES[kind], case.victim.name()));
                }
                // later use of the worlds through the safe API
                if let Some(msg) = use_later::<R>(&mut b, &mut stats) {
                    std::mem::forget(b);
                    return fail("dropped-value-reachable-later", format!("panic in the {k}-th {} call during {}: {msg}", CALLBACK_NAMES[kind], case.victim.name()));
                }
                let errs = ledger::take_errors();
                if let Some(e) = errs.first() {
                    std::mem::forget(b);
                    return fail("double-drop-later", format!("panic in the {k}-th {} call during {}: while the worlds were read afterwards, {e}", CALLBACK_NAMES[kind], case.victim.name()));
                }
                // later changes of the worlds through the safe API
                if let Some(msg) = mutate_later::<R>(&mut b, &mut stats) {
                    std::mem::forget(b);
                    return fail("dropped-value-reachable-later", format!("panic in the {k}-th {} call during {}: {msg}", CALLBACK_NAMES[kind], case.victim.name()));
                }
                let errs = ledger::take_errors();
                if let Some(e) = errs.first() {
                    std::mem::forget(b);
                    return fail("double-drop-later", format!("panic in the {k}-th {} call during {}: while the worlds were changed afterwards (insert, remove of every identifier, Entry::add/remove, clear), {e}", CALLBACK_NAMES[kind], case.victim.name()));
                }
                talloc::check_quarantine();
                if let Some(d) = talloc::describe(&talloc::errors()) {
                    std::mem::forget(b);
                    return fail("memory-later", format!("panic in the {k}-th {} call during {}: while the worlds were changed afterwards, {d}", CALLBACK_NAMES[kind], case.victim.name()));
                }
                // the worlds must still be droppable
                let r = catch_unwind(AssertUnwindSafe(|| drop(b)));
                if r.is_err() {
                    return fail("drop-panics", format!("after a panic in the {k}-th {} call during {}, dropping the worlds panicked", CALLBACK_NAMES[kind], case.victim.name()));
                }
                let errs = ledger::take_errors();
                if let Some(e) = errs.first() {
                    return fail("double-drop-later", format!("panic in the {k}-th {} call during {}: when the worlds were dropped afterwards, {e}", CALLBACK_NAMES[kind], case.victim.name()));
                }
                talloc::check_quarantine();
                if let Some(d) = talloc::describe(&talloc::errors()) {
                    return fail("memory-later", format!("panic in the {k}-th {} call during {}: when the worlds were dropped afterwards, {d}", CALLBACK_NAMES[kind], case.victim.name()));
                }
            }
        }
        None
    })();
    set_quiet(false);
    talloc::track_set(false);
    (stats, result)
}

fn victim_strategy() -> BoxedStrategy<Victim> {
    prop_oneof![
        4 => any::<u16>().prop_map(|t| Victim::Remove { t }),
        3 => Just(Victim::Clear),
        4 => (any::<u16>(), any::<u8>(), any::<u32>()).prop_map(|(t, comp, p)| Victim::EntryAdd { t, comp, p }),
        3 => (any::<u16>(), any::<u8>()).prop_map(|(t, comp)| Victim::EntryRemove { t, comp }),
        3 => Just(Victim::CloneWorld),
        6 => (0u8..4, any::<bool>()).prop_map(|(prep, swap)| Victim::CloneFrom { prep, swap }),
        2 => Just(Victim::EqWorlds),
        1 => Just(Victim::DebugFmt),
        3 => prop::sample::select(ENCS.to_vec()).prop_map(|enc| Victim::Serialize { enc }),
        4 => prop::sample::select(ENCS.to_vec()).prop_map(|enc| Victim::Deserialize { enc }),
        3 => Just(Victim::DropWorld),
        2 => (any::<u16>(), prop::option::of(any::<u32>())).prop_map(|(q, salt)| Victim::RunSystem { q, salt }),
        1 => (any::<u16>(), prop::option::of(any::<u32>())).prop_map(|(q, salt)| Victim::Query { q, mode: QMode::Next, salt }),
        1 => Just(Victim::ShrinkToFit),
        2 => (any::<u16>(), any::<u8>(), any::<u32>()).prop_map(|(shape, n, p)| Victim::ExtendClones { shape, n, p }),
    ]
    .boxed()
}

fn case_strategy(thorough: bool) -> BoxedStrategy<FaultCase> {
    let mut base = Profile::base();
    base.round_trip = 0;
    base.clone_to = 0;
    base.clone_from = 0;
    base.eq = 0;
    base.debug = 0;
    base.drop_world = 0;
    base.query = 0;
    base.par_query = 0;
    base.entry_query = 0;
    base.entries_query = 0;
    base.reserve = 1;
    base.w0_bias = 60;
    base.max_ops = if thorough { 14 } else { 9 };
    base.insert = 16;
    base.extend = 8;
    (history_strategy(&base), victim_strategy()).prop_map(|(base, victim)| FaultCase { base, victim }).boxed()
}

#[derive(Clone, Debug, Default)]
pub struct FaultReport {
    pub registry: String,
    pub cases: u64,
    pub injections: u64,
    pub fired: u64,
    pub nontrivial: HashSet<u64>,
    pub classes: BTreeMap<String, u64>,
    pub excluded: BTreeMap<String, u64>,
    pub samples: Vec<serde_json::Value>,
    pub failure: Option<FaultReplay>,
    pub wall_s: f64,
}

pub fn run_fault<R: Reg>(cfg: &crate::runner::Config, known: &[String]) -> FaultReport {
    let t0 = std::time::Instant::now();
    let report = Arc::new(Mutex::new(FaultReport { registry: R::NAME.to_string(), ..Default::default() }));
    let stop = Arc::new(AtomicBool::new(false));
    std::thread::scope(|scope| {
        for wi in 0..cfg.workers {
            let report = report.clone();
            let stop = stop.clone();
            let cfg = cfg.clone();
            let known = known.to_vec();
            std::thread::Builder::new()
                .stack_size(64 << 20)
                .spawn_scoped(scope, move || {
                    let mut h = std::collections::hash_map::DefaultHasher::new();
                    (cfg.seed, wi as u64, R::NAME, "fault").hash(&mut h);
                    let s = h.finish();
                    let mut seed_bytes = [0u8; 32];
                    for (i, b) in seed_bytes.iter_mut().enumerate() {
                        *b = (s.rotate_left(i as u32 * 3) as u8) ^ (i as u8).wrapping_mul(53);
                    }
                    let mut runner = TestRunner::new_with_rng(
                        PtConfig { cases: cfg.cases_per_worker, failure_persistence: None, max_shrink_iters: 600, rng_seed: RngSeed::Fixed(s), ..PtConfig::default() },
                        proptest::test_runner::TestRng::from_seed(proptest::test_runner::RngAlgorithm::ChaCha, &seed_bytes),
                    );
                    let local = std::cell::RefCell::new(FaultReport::default());
                    let failed = std::cell::Cell::new(false);
                    let last: std::cell::RefCell<Option<FaultFail>> = std::cell::RefCell::new(None);
                    let result = runner.run(&case_strategy(cfg.thorough), |case| {
                        if stop.load(Ordering::Relaxed) && !failed.get() {
                            return Ok(());
                        }
                        let text = serde_json::to_string(&FaultReplay { property: "C17".into(), engine: "fault".into(), registry: R::NAME.into(), pool_digest: cfg.pool_digest.clone(), seed: cfg.seed, case: case.clone(), kind: 255, k: 0, failure: "fatal signal while injecting panics into this case".into(), oracle: "crash".into() }).unwrap_or_default();
                        crate::crash::announce(wi, &text);
                        let (stats, fail) = run_fault_case::<R>(&case, wi, None, &known);
                        crate::crash::clear(wi);
                        if !failed.get() {
                            let mut l = local.borrow_mut();
                            l.cases += 1;
                            l.injections += stats.injections;
                            l.fired += stats.fired;
                            for (k, v) in &stats.per_op_kind {
                                *l.classes.entry(k.clone()).or_insert(0) += v;
                            }
                            for (k, v) in &stats.excluded {
                                *l.excluded.entry(k.clone()).or_insert(0) += v;
                            }
                            *l.classes.entry("cases_unusable".into()).or_insert(0) += stats.unusable as u64;
                            *l.classes.entry("injections_on_archetype_with_2plus_columns_and_rows".into()).or_insert(0) += stats.fired_multi;
                            *l.classes.entry("values_observed_through_the_safe_api_after_a_caught_panic".into()).or_insert(0) += stats.later_values_observed;
                            *l.classes.entry("library_panics_while_using_a_world_after_a_caught_panic".into()).or_insert(0) += stats.later_use_panicked;
                            *l.classes.entry("worlds_changed_through_the_safe_api_after_a_caught_panic".into()).or_insert(0) += stats.later_mutations;
                            if fail.is_none() && stats.fired_multi > 0 {
                                let mut h2 = std::collections::hash_map::DefaultHasher::new();
                                serde_json::to_string(&case).unwrap().hash(&mut h2);
                                if l.nontrivial.insert(h2.finish()) && l.samples.len() < 2 {
                                    l.samples.push(serde_json::json!({"registry": R::NAME, "case": case, "injections": stats.per_op_kind}));
                                }
                            }
                        }
                        match fail {
                            Some(f) => {
                                failed.set(true);
                                let msg = format!("[{}] {}", f.oracle, f.msg);
                                *last.borrow_mut() = Some(f);
                                Err(TestCaseError::fail(msg))
                            }
                            None => Ok(()),
                        }
                    });
                    let mut local = local.into_inner();
                    if let Err(TestError::Fail(reason, case)) = result {
                        stop.store(true, Ordering::Relaxed);
                        let (_, fail) = run_fault_case::<R>(&case, wi, None, &known);
                        let f = fail.or(last.into_inner());
                        let (msg, oracle, kind, k) = match f {
                            Some(f) => (f.msg, f.oracle.to_string(), f.kind, f.k),
                            None => (reason.to_string(), String::new(), 255, 0),
                        };
                        local.failure = Some(FaultReplay { property: "C17".into(), engine: "fault".into(), registry: R::NAME.into(), pool_digest: cfg.pool_digest.clone(), seed: cfg.seed, case, kind, k, failure: msg, oracle });
                    }
                    let mut r = report.lock().unwrap();
                    r.cases += local.cases;
                    r.injections += local.injections;
                    r.fired += local.fired;
                    r.nontrivial.extend(local.nontrivial);
                    for (k, v) in local.classes {
                        *r.classes.entry(k).or_insert(0) += v;
                    }
                    for (k, v) in local.excluded {
                        *r.excluded.entry(k).or_insert(0) += v;
                    }
                    if r.samples.len() < 3 {
                        r.samples.extend(local.samples.into_iter().take(1));
                    }
                    if let Some(f) = local.failure {
                        if r.failure.as_ref().map_or(true, |old| f.case.base.len() < old.case.base.len()) {
                            r.failure = Some(f);
                        }
                    }
                })
                .unwrap();
        }
    });
    let mut r = Arc::try_unwrap(report).ok().unwrap().into_inner().unwrap();
    r.wall_s = t0.elapsed().as_secs_f64();
    r
}

pub fn replay_fault<R: Reg>(r: &FaultReplay) -> Option<String> {
    let only = if r.kind == 255 { None } else { Some((r.kind, r.k)) };
    run_fault_case::<R>(&r.case, 0, only, &[]).1.map(|f| format!("[{}] {}", f.oracle, f.msg))
}

#[allow(dead_code)]
fn _unused<R: Reg>(_s: &Slot<R>) {}
