//! Model-based interpreter of histories: applies every operation to the real world(s) and to a
//! plain reference model and runs all oracles after every step.

use crate::ops::{NSel, Op, RtMode};
use crate::reg::*;
use std::collections::{BTreeMap, HashMap, HashSet};
use vcommon::comps::Obs;
use vcommon::{ledger, talloc};

pub const NSLOTS: usize = 3;

/// An oracle failure, attributed to one or more properties.
#[derive(Clone, Debug)]
pub struct Fail {
    pub props: &'static [&'static str],
    pub oracle: &'static str,
    pub msg: String,
    pub step: usize,
}

#[derive(Clone, Debug, PartialEq)]
pub struct MVal {
    pub payload: u32,
    /// 0 = not yet known (adopted from the next snapshot, must be a serial made in this step)
    pub serial: u64,
}

#[derive(Clone, Default)]
pub struct Model {
    pub ents: HashMap<Id, Vec<Option<MVal>>>,
    /// live ids in issue order
    pub live: Vec<Id>,
    /// every id this lineage ever returned, in issue order
    pub issued: Vec<Id>,
    pub issued_set: HashSet<Id>,
    pub res: [u32; 4],
    pub res_serial: [u64; 4],
}

impl Model {
    fn mask(comps: &[Option<MVal>]) -> u32 {
        comps.iter().enumerate().fold(0, |m, (i, c)| if c.is_some() { m | 1 << i } else { m })
    }
    fn stale(&self) -> Vec<Id> {
        self.issued.iter().copied().filter(|i| !self.ents.contains_key(i)).collect()
    }
    fn forget_serials(&mut self) {
        for comps in self.ents.values_mut() {
            for c in comps.iter_mut().flatten() {
                c.serial = 0;
            }
        }
        self.res_serial = [0; 4];
    }
}

pub struct Slot<R: Reg> {
    pub real: R::W,
    pub model: Model,
    pub shadow: Option<R::W>,
    /// serials of the shadow's values by (id, comp) are not tracked individually; the shadow's
    /// serial set is recomputed from its snapshot.
    pub deserialized: bool,
}

/// Flags and counters describing what a case exercised (for the non-triviality rules).
#[derive(Clone, Debug, Default)]
pub struct CaseStats {
    pub ops_run: usize,
    pub noops: usize,
    pub shape_change_new: u32,
    pub shape_change_existing: u32,
    pub remove_nonlast: u32,
    pub max_nonempty_archetypes: usize,
    pub slot_reused: u32,
    pub stale_probed_after_reuse: u32,
    pub batch_vs_free: [u32; 3], // smaller, equal, larger than the free list (free list non-empty)
    pub drop_paths: u32,         // bitmask: remove, overwrite, detach, clear, clone_from, world drop, shrink, deser
    pub heap_column: bool,
    pub reallocs: u32,
    pub adoption: u32,
    pub shrink_freed: u32,
    pub archetype_deleted: u32,
    pub wide_or_zst_present: bool,
    pub rt_with_free_and_2arch: u32,
    pub lockstep_issuing_ops: u32,
    pub rt_total: u32,
    pub clone_dst_extra_arch: u32,
    pub clone_src_empty_arch: u32,
    pub mutations_after_clone: [u32; 2],
    pub audits_after_change: u32,
    pub audits: u32,
    pub res_multi: u32,
    pub res_writes: u32,
    pub eq_pairs_equal_snap: u32,
    pub eq_pairs_differ: u32,
    pub eq_true: u32,
    pub q_cases: u32,
    pub q_nontrivial: u32,
    pub q_opt_both: u32,
    pub q_entry_absent_super: u32,
    pub q_hints: u32,
    pub par_cases: u32,
    pub par_nontrivial: u32,
    pub par_mut_addresses: u64,
    pub excluded: BTreeMap<&'static str, u32>,
    pub op_counts: BTreeMap<&'static str, u32>,
    pub foreign: Option<(String, String)>,
    /// clone / clone_from operations executed so far
    pub clones: u32,
    /// round trips after which the deserialized world replaced the original
    pub deser_replaced: u32,
}

#[derive(Clone, Debug, Default)]
pub struct Exclusions {
    /// known finding: `Extend` with 0 < n < |free| loses a slot
    pub extend_smaller_than_free: bool,
    /// known finding: clear() frees slots in address-dependent order => lock-step ids diverge
    pub clear_with_shadow: bool,
    /// known finding: Entry::remove never drops the detached value
    pub entry_remove_leak: bool,
    /// known findings of the failed-deserialization leak oracle: prefixes of
    /// `deser-leak:<row-wise|column-wise>:<error class>` that are not reported
    pub deser_leak_known: Vec<String>,
}

pub struct Interp<R: Reg> {
    pub slots: Vec<Option<Slot<R>>>,
    pub stats: CaseStats,
    pub step: usize,
    pub excl: Exclusions,
    made_this_step: HashSet<u64>,
    /// which slot was the destination of the most recent clone / clone_from
    clone_marks: [bool; NSLOTS],
    /// dump of each slot after the previous step (classification only)
    prev: Vec<Option<brood::verif::Dump>>,
    /// slots the current step operated on (the others only get the cheap unchanged-check)
    touched: [bool; NSLOTS],
    /// the property whose oracles decide this run
    pub prop: String,
    /// observer oracles of *other* properties that already fired in this case: they are recorded
    /// once and then muted so that the case can go on to reach this property's own oracles
    pub muted: HashSet<&'static str>,
    pub foreign: Vec<Fail>,
    pub mute: bool,
    /// run the oracles after every step (off while only *building* a world)
    pub checks: bool,
    /// step at which a *structural* observer (audit / resolve) of another property first fired;
    /// the case is cut a few steps later because broken bookkeeping makes a crash likely
    structural_at: Option<usize>,
    /// serials the reference maps knew after the previous step
    known_prev: HashSet<u64>,
}

type FResult = Result<(), Fail>;

/// Oracles that only observe (they do not feed the reference model): when one of them fires for a
/// property other than the one being checked it is recorded, muted for the rest of the case, and
/// the case continues.
/// Set by the interpreter-tier binary: histories run with the per-step oracles switched off (the
/// interpreter the binary runs under is the oracle).
pub static LIGHT: std::sync::atomic::AtomicBool = std::sync::atomic::AtomicBool::new(false);

pub const OBSERVERS: [&str; 13] = [
    "dropped-on-exit", "ledger", "allocator", "resolve", "resolve-same-entity", "audit", "audit-twin", "exactly-once", "exactly-once-count", "fresh-value", "value-shared", "len", "lockstep-snapshot",
];

fn idx(t: u16, len: usize) -> usize {
    (t as usize * len) >> 16
}

fn mix(p: u32, i: u32) -> u32 {
    let mut x = p ^ i.wrapping_mul(0x9E37_79B9);
    x ^= x >> 15;
    x = x.wrapping_mul(0x2C1B_3C6D);
    x ^= x >> 12;
    // payloads stay below 60000 so that, in serialized form, every number above 65536 is
    // recognisably *not* a payload (the C11 screen for declared lengths relies on it)
    (x & 0x7fff_ffff) % 60_000
}

macro_rules! fail {
    ($self:expr, $props:expr, $oracle:expr, $($arg:tt)*) => {
        return Err(Fail { props: $props, oracle: $oracle, msg: format!($($arg)*), step: $self.step })
    };
}

impl<R: Reg> Interp<R> {
    pub fn new(excl: Exclusions) -> Self {
        let mut s = Interp {
            slots: (0..NSLOTS).map(|_| None).collect(),
            stats: CaseStats::default(),
            step: 0,
            excl,
            made_this_step: HashSet::new(),
            clone_marks: [false; NSLOTS],
            prev: (0..NSLOTS).map(|_| None).collect(),
            touched: [true; NSLOTS],
            prop: String::new(),
            muted: HashSet::new(),
            foreign: Vec::new(),
            mute: true,
            checks: !LIGHT.load(std::sync::atomic::Ordering::Relaxed),
            structural_at: None,
            known_prev: HashSet::new(),
        };
        s.ensure(0);
        s
    }

    /// Forget per-step classification state after a world was swapped in from outside.
    pub fn reset_tracking(&mut self) {
        self.prev = (0..NSLOTS).map(|_| None).collect();
        self.touched = [true; NSLOTS];
    }

    fn ensure(&mut self, w: usize) {
        if self.slots[w].is_none() {
            let res = [10 + w as u32, 20 + w as u32, 0, 40 + w as u32];
            let real = talloc::tracked(|| R::new_world(res));
            let mut model = Model::default();
            model.res = res;
            self.slots[w] = Some(Slot { real, model, shadow: None, deserialized: false });
        }
    }

    pub fn world_mut(&mut self, w: usize) -> &mut Slot<R> {
        self.slot(w as u8)
    }

    fn slot(&mut self, w: u8) -> &mut Slot<R> {
        let w = w as usize % NSLOTS;
        self.touched[w] = true;
        self.ensure(w);
        self.slots[w].as_mut().unwrap()
    }

    fn comps_for(mask: u32, p: u32, row: u32) -> Vec<u32> {
        (0..R::N).map(|c| if mask >> c & 1 == 1 { R::norm(c, mix(p, row * 64 + c as u32)) } else { 0 }).collect()
    }

    fn mvals(mask: u32, ps: &[u32]) -> Vec<Option<MVal>> {
        (0..R::N).map(|c| if mask >> c & 1 == 1 { Some(MVal { payload: ps[c], serial: 0 }) } else { None }).collect()
    }

    /// Apply one operation and run every oracle.
    pub fn apply(&mut self, op: &Op) -> FResult {
        self.step += 1;
        crate::crash::set_step(self.step);
        self.stats.ops_run += 1;
        *self.stats.op_counts.entry(op.name()).or_insert(0) += 1;
        ledger::take_made();
        ledger::take_dropped();
        self.made_this_step.clear();
        self.touched = [false; NSLOTS];
        match op {
            Op::CloneTo { src, dst } | Op::CloneFrom { dst, src } => {
                self.touched[*src as usize % NSLOTS] = true;
                self.touched[*dst as usize % NSLOTS] = true;
            }
            Op::Eq { a, b } => {
                self.touched[*a as usize % NSLOTS] = true;
                self.touched[*b as usize % NSLOTS] = true;
            }
            Op::DropWorld { w } => self.touched[*w as usize % NSLOTS] = true,
            _ => {}
        }
        let r = self.apply_inner(op);
        // Values constructed during the step (harness-made or library-made).
        self.made_this_step.extend(ledger::take_made());
        r?;
        if !self.checks {
            return Ok(());
        }
        loop {
            match self.check_all() {
                Err(f) if self.mute && !self.owns(&f) && OBSERVERS.contains(&f.oracle) && !self.muted.contains(f.oracle) => {
                    if matches!(f.oracle, "audit" | "audit-twin" | "resolve" | "resolve-same-entity" | "len") && self.structural_at.is_none() {
                        self.structural_at = Some(self.step);
                    }
                    self.muted.insert(f.oracle);
                    self.foreign.push(f);
                }
                Ok(()) if self.structural_at.map_or(false, |at| self.step >= at + 3) => {
                    // stop here: report the recorded foreign failure, not a crash
                    return Err(self.foreign[0].clone());
                }
                other => return other,
            }
        }
    }

    /// Does a failure count for the property being checked? C10 and C06 promise that a cloned /
    /// deserialized world "keeps satisfying every other property": in their checks a failure of
    /// those oracles after a clone / after the deserialized world took over counts as their own.
    pub fn owns(&self, f: &Fail) -> bool {
        const OTHERS: [&str; 7] = ["C01", "C02", "C03", "C04", "C05", "C13", "C15"];
        let prop = self.prop.as_str();
        f.props.contains(&prop)
            || (f.props.iter().any(|p| OTHERS.contains(p)) && ((prop == "C10" && self.stats.clones > 0) || (prop == "C06" && self.stats.deser_replaced > 0)))
    }

    fn on(&self, oracle: &'static str) -> bool {
        !self.muted.contains(oracle)
    }

    fn issue(&mut self, w: u8, id: Id, comps: Vec<Option<MVal>>) -> FResult {
        let step = self.step;
        let s = self.slot(w);
        if s.model.issued_set.contains(&id) {
            return Err(Fail {
                props: &["C02"],
                oracle: "id-unique",
                msg: format!("identifier {id:?} was returned before in this world's lifetime (live now: {})", s.model.ents.contains_key(&id)),
                step,
            });
        }
        s.model.issued.push(id);
        s.model.issued_set.insert(id);
        s.model.live.push(id);
        s.model.ents.insert(id, comps);
        Ok(())
    }

    fn note_mutation_after_clone(&mut self, w: u8) {
        let w = w as usize % NSLOTS;
        if self.clone_marks[w] {
            self.stats.mutations_after_clone[0] += 1;
        } else if self.clone_marks.iter().any(|&m| m) {
            self.stats.mutations_after_clone[1] += 1;
        }
    }

    fn apply_inner(&mut self, op: &Op) -> FResult {
        match op {
            Op::Insert { w, shape, order, p } => {
                let shapes = R::shapes();
                let (mask, nord, _) = shapes[idx(*shape, shapes.len())];
                let order = order % nord;
                let ps = Self::comps_for(mask, *p, 0);
                let s = self.slot(*w);
                let dump_before = R::dump(&s.real);
                let id = R::insert(&mut s.real, mask, order, &ps);
                let sid = s.shadow.as_mut().map(|sh| R::insert(sh, mask, order, &ps));
                if let Some(sid) = sid {
                    self.stats.lockstep_issuing_ops += 1;
                    if sid != id {
                        fail!(self, &["C06"], "lockstep-ids", "insert returned {id:?} on the original but {sid:?} on its deserialized twin");
                    }
                }
                if !dump_before.free.is_empty() {
                    self.stats.slot_reused += 1;
                }
                self.issue(*w, id, Self::mvals(mask, &ps))?;
                self.note_mutation_after_clone(*w);
            }
            Op::Extend { w, shape, order, mode, n, p } => {
                let shapes = R::shapes();
                let (mask, _, nord) = shapes[idx(*shape, shapes.len())];
                let order = order % nord;
                let s = self.slot(*w);
                let free = R::dump(&s.real).free.len();
                let mut n = match n {
                    NSel::Exact(k) => *k as usize,
                    NSel::FreeMinus1 => free.saturating_sub(1),
                    NSel::Free => free,
                    NSel::FreePlus1 => free + 1,
                }
                .min(6000);
                if self.excl.extend_smaller_than_free && n > 0 && n < free {
                    *self.stats.excluded.entry("extend_smaller_than_free").or_insert(0) += 1;
                    n = free;
                }
                let modes = R::extend_modes(mask, order);
                let mut mode = *mode % 3;
                if modes >> mode & 1 == 0 || (mode == 1 && !(1..=3).contains(&n) && mask != 0) {
                    mode = 0;
                }
                let mut rows: Vec<Vec<u32>> = (0..n).map(|r| Self::comps_for(mask, *p, r as u32)).collect();
                if mode == 2 {
                    for r in 1..n {
                        rows[r] = rows[0].clone();
                    }
                    if n == 0 && mask != 0 {
                        // `entities!((..); 0)` still evaluates the row expression once
                        mode = 0;
                    }
                }
                // A column-less batch carries no rows.
                let expect = if mask == 0 { 0 } else { n };
                if free > 0 && expect > 0 {
                    let k = if expect < free { 0 } else if expect == free { 1 } else { 2 };
                    self.stats.batch_vs_free[k] += 1;
                    self.stats.slot_reused += 1;
                }
                let s = self.slot(*w);
                let ids = R::extend(&mut s.real, mask, order, mode, &rows);
                let sids = s.shadow.as_mut().map(|sh| R::extend(sh, mask, order, mode, &rows));
                if ids.len() != expect {
                    fail!(self, &["C01", "C02"], "extend-count", "extend of a batch with {expect} rows (shape {mask:#b}) returned {} identifiers", ids.len());
                }
                if let Some(sids) = sids {
                    if expect > 0 {
                        self.stats.lockstep_issuing_ops += 1;
                    }
                    if sids != ids {
                        fail!(self, &["C06"], "lockstep-ids", "extend returned {ids:?} on the original but {sids:?} on its deserialized twin");
                    }
                }
                for (r, id) in ids.iter().enumerate() {
                    self.issue(*w, *id, Self::mvals(mask, &rows[r]))?;
                }
                self.note_mutation_after_clone(*w);
            }
            Op::Remove { w, t } => {
                let s = self.slot(*w);
                if s.model.live.is_empty() {
                    self.stats.noops += 1;
                    return Ok(());
                }
                let i = idx(*t, s.model.live.len());
                let id = s.model.live.remove(i);
                // classification: removal of a non-last row?
                let d = R::dump(&s.real);
                if let Some(a) = d.archetypes.iter().find(|a| a.entity_identifiers.iter().any(|e| Some(*e) == id_parts(id))) {
                    if a.entity_identifiers.last().copied() != id_parts(id) {
                        self.stats.remove_nonlast += 1;
                    }
                }
                let s = self.slot(*w);
                R::remove(&mut s.real, id);
                if let Some(sh) = s.shadow.as_mut() {
                    R::remove(sh, id);
                }
                s.model.ents.remove(&id);
                self.stats.drop_paths |= 1;
                self.note_mutation_after_clone(*w);
            }
            Op::RemoveStale { w, t } => {
                let s = self.slot(*w);
                let stale = s.model.stale();
                if stale.is_empty() {
                    self.stats.noops += 1;
                    return Ok(());
                }
                let id = stale[idx(*t, stale.len())];
                R::remove(&mut s.real, id);
                if let Some(sh) = s.shadow.as_mut() {
                    R::remove(sh, id);
                }
                // model unchanged: the snapshot check proves `remove(stale)` was a no-op
            }
            Op::Clear { w } => {
                if self.excl.clear_with_shadow {
                    let s = self.slot(*w);
                    if s.shadow.is_some() && R::dump(&s.real).archetypes.iter().filter(|a| a.length > 0).count() >= 2 {
                        *self.stats.excluded.entry("clear_with_shadow").or_insert(0) += 1;
                        self.stats.noops += 1;
                        return Ok(());
                    }
                }
                let s = self.slot(*w);
                R::clear(&mut s.real);
                if let Some(sh) = s.shadow.as_mut() {
                    R::clear(sh);
                }
                let had_any = !s.model.live.is_empty();
                s.model.live.clear();
                s.model.ents.clear();
                if had_any {
                    self.stats.drop_paths |= 8;
                }
                self.note_mutation_after_clone(*w);
            }
            Op::EntryAdd { w, t, comp, p } => {
                if R::N == 0 {
                    self.stats.noops += 1;
                    return Ok(());
                }
                let comp = *comp as usize % R::N;
                let s = self.slot(*w);
                if s.model.live.is_empty() {
                    self.stats.noops += 1;
                    return Ok(());
                }
                let id = s.model.live[idx(*t, s.model.live.len())];
                let pv = R::norm(comp, mix(*p, 7));
                let had = s.model.ents[&id][comp].is_some();
                let narch_before = R::dump(&s.real).archetypes.len();
                let ok = R::entry_add(&mut s.real, id, comp, pv);
                if let Some(sh) = s.shadow.as_mut() {
                    R::entry_add(sh, id, comp, pv);
                }
                if !ok {
                    fail!(self, &["C02"], "live-entry", "World::entry({id:?}) is None for a live entity");
                }
                let s = self.slot(*w);
                s.model.ents.get_mut(&id).unwrap()[comp] = Some(MVal { payload: pv, serial: 0 });
                let narch_after = R::dump(&s.real).archetypes.len();
                if had {
                    self.stats.drop_paths |= 2;
                } else if narch_after > narch_before {
                    self.stats.shape_change_new += 1;
                } else {
                    self.stats.shape_change_existing += 1;
                }
                self.note_mutation_after_clone(*w);
            }
            Op::EntryRemove { w, t, comp } => {
                if R::N == 0 {
                    self.stats.noops += 1;
                    return Ok(());
                }
                let comp = *comp as usize % R::N;
                let s = self.slot(*w);
                if s.model.live.is_empty() {
                    self.stats.noops += 1;
                    return Ok(());
                }
                let id = s.model.live[idx(*t, s.model.live.len())];
                let had = s.model.ents[&id][comp].is_some();
                let excl_leak = self.excl.entry_remove_leak;
                let s = self.slot(*w);
                if had && excl_leak {
                    *self.stats.excluded.entry("entry_remove_leak").or_insert(0) += 1;
                    self.stats.noops += 1;
                    return Ok(());
                }
                let narch_before = R::dump(&s.real).archetypes.len();
                let ok = R::entry_remove(&mut s.real, id, comp);
                if let Some(sh) = s.shadow.as_mut() {
                    R::entry_remove(sh, id, comp);
                }
                if !ok {
                    fail!(self, &["C02"], "live-entry", "World::entry({id:?}) is None for a live entity");
                }
                let s = self.slot(*w);
                s.model.ents.get_mut(&id).unwrap()[comp] = None;
                if had {
                    let grew = R::dump(&s.real).archetypes.len() > narch_before;
                    self.stats.drop_paths |= 4;
                    if grew {
                        self.stats.shape_change_new += 1;
                    } else {
                        self.stats.shape_change_existing += 1;
                    }
                }
                self.note_mutation_after_clone(*w);
            }
            Op::EntryChain { w, t, steps } => {
                if R::N == 0 {
                    self.stats.noops += 1;
                    return Ok(());
                }
                let s = self.slot(*w);
                if s.model.live.is_empty() {
                    self.stats.noops += 1;
                    return Ok(());
                }
                let id = s.model.live[idx(*t, s.model.live.len())];
                let got = R::entry_chain(&mut s.real, id, steps);
                if let Some(sh) = s.shadow.as_mut() {
                    R::entry_chain(sh, id, steps);
                }
                let Some(got) = got else {
                    fail!(self, &["C02"], "live-entry", "World::entry({id:?}) is None for a live entity");
                };
                // replay the steps on the reference map and compare what the handle showed
                let step = self.step;
                let s = self.slot(*w);
                let comps = s.model.ents.get_mut(&id).unwrap();
                let mut k = 0;
                let mut paths = 0u32;
                for (i, (kind, comp, p)) in steps.iter().enumerate() {
                    let c = *comp as usize % R::N;
                    match kind % 3 {
                        0 => {
                            if comps[c].is_some() {
                                paths |= 2;
                            }
                            comps[c] = Some(MVal { payload: R::norm(c, *p % 60_000), serial: 0 });
                        }
                        1 => {
                            if comps[c].is_some() {
                                paths |= 4;
                            }
                            comps[c] = None;
                        }
                        _ => {
                            let Some(obs) = got.get(k) else {
                                return Err(Fail { props: &["C01", "C02"], oracle: "entry-handle", msg: "missing observation".into(), step });
                            };
                            k += 1;
                            for cc in 0..R::N {
                                let same = match (&comps[cc], obs[cc]) {
                                    (None, None) => true,
                                    (Some(m), Some(o)) => o.payload == m.payload && o.ok,
                                    _ => false,
                                };
                                if !same {
                                    return Err(Fail { props: &["C01", "C02", "C03"], oracle: "entry-handle", msg: format!("after {i} add/remove steps through one Entry handle for {id:?}, the handle shows component {cc} = {:?} but the entity holds {:?} (the handle addresses another row)", obs[cc].map(|o| o.payload), comps[cc].as_ref().map(|m| m.payload)), step });
                                }
                            }
                        }
                    }
                }
                self.stats.drop_paths |= paths;
                self.stats.shape_change_existing += 1;
                self.note_mutation_after_clone(*w);
            }
            Op::ExtendRagged { w, shape, lens, p } => {
                let shapes = R::shapes();
                let (mask, _, _) = shapes[idx(*shape, shapes.len())];
                let k = mask.count_ones() as usize;
                if k < 2 {
                    self.stats.noops += 1;
                    return Ok(());
                }
                let mut l: Vec<usize> = (0..k).map(|i| lens[i % lens.len()] as usize).collect();
                if l.iter().all(|x| *x == l[0]) {
                    l[k - 1] += 1;
                }
                let s = self.slot(*w);
                let r = std::panic::catch_unwind(std::panic::AssertUnwindSafe(|| R::extend_ragged(&mut s.real, mask, &l, *p % 60_000)));
                vcommon::talloc::track_set(false);
                match r {
                    Err(_) => {} // the documented panic; every value of the batch must be dropped by now (checked below)
                    Ok(None) => {
                        self.stats.noops += 1;
                    }
                    Ok(Some(ids)) => {
                        fail!(self, &["C18", "C04", "C05"], "ragged-batch-accepted", "Batch::new accepted columns of lengths {l:?} (shape {mask:#b}) and extend returned {} identifiers: the surplus values belong to no entity", ids.len());
                    }
                }
            }
            Op::Query { w, q, mode, salt } => {
                let metas = R::queries();
                let qi = idx(*q, metas.len());
                let meta = &metas[qi];
                let salt = if meta.mutates() { *salt } else { None };
                let s = self.slot(*w);
                let out = R::run_query(&mut s.real, qi, *mode, salt);
                let sh_out = s.shadow.as_mut().map(|sh| R::run_query(sh, qi, *mode, salt));
                self.check_query(*w, meta, *mode, salt, &out)?;
                if let Some(sh_out) = sh_out {
                    if sh_out.rows.len() != out.rows.len() {
                        fail!(self, &["C06"], "lockstep-query", "query {} yields {} rows on the original and {} on its deserialized twin", meta.text, out.rows.len(), sh_out.rows.len());
                    }
                }
                if salt.is_some() {
                    self.note_mutation_after_clone(*w);
                }
            }
            Op::ParQuery { w, q, pool, term, salt } => {
                let pqs = R::par_queries();
                if pqs.is_empty() {
                    self.stats.noops += 1;
                    return Ok(());
                }
                let qi = pqs[idx(*q, pqs.len())];
                let meta = &R::queries()[qi];
                let salt = if meta.mutates() && !term.short_circuit() { *salt } else { None };
                let tp = crate::reg::pool(*pool as usize);
                let s = self.slot(*w);
                // classification: how many non-empty archetypes match, is one longer than a row?
                let d = R::dump(&s.real);
                let mut matching = 0;
                let mut long = false;
                for a in &d.archetypes {
                    let mut mask = 0u32;
                    for (i, b) in a.identifier.iter().enumerate() {
                        mask |= (*b as u32) << (8 * i);
                    }
                    if a.length > 0 && meta.matches(mask) {
                        matching += 1;
                        long |= a.length > 1;
                    }
                }
                let out = R::run_par_query(&mut s.real, qi, *term, salt, tp);
                if let Some(sh) = s.shadow.as_mut() {
                    R::run_par_query(sh, qi, *term, salt, tp);
                }
                self.stats.par_cases += 1;
                if matching >= 2 && long && crate::reg::POOL_SIZES[*pool as usize % crate::reg::POOL_SIZES.len()] >= 2 {
                    self.stats.par_nontrivial += 1;
                }
                self.check_par_query(*w, meta, *term, salt, out)?;
                if salt.is_some() {
                    self.note_mutation_after_clone(*w);
                }
            }
            Op::EntryQuery { w, t, q, salt } => {
                let metas = R::queries();
                let qi = idx(*q, metas.len());
                let meta = &metas[qi];
                let salt = if meta.mutates() { *salt } else { None };
                let s = self.slot(*w);
                if s.model.issued.is_empty() {
                    self.stats.noops += 1;
                    return Ok(());
                }
                // mostly live targets, sometimes any issued id
                let id = if !s.model.live.is_empty() && *t % 4 != 0 { s.model.live[idx(*t, s.model.live.len())] } else { s.model.issued[idx(*t, s.model.issued.len())] };
                let got = R::entry_query(&mut s.real, id, qi, salt);
                if let Some(sh) = s.shadow.as_mut() {
                    R::entry_query(sh, id, qi, salt);
                }
                self.check_entry_query(*w, id, meta, salt, got)?;
            }
            Op::EntriesQuery { w, e, ts, salt, interleave } => {
                let metas = R::entry_metas();
                let ei = idx(*e, metas.len());
                let meta = &metas[ei];
                let salt = if meta.sub_views.iter().any(|(_, k)| k.mutable()) { *salt } else { None };
                let s = self.slot(*w);
                if s.model.issued.is_empty() {
                    self.stats.noops += 1;
                    return Ok(());
                }
                let ids: Vec<Id> = ts
                    .iter()
                    .map(|t| if !s.model.live.is_empty() && *t % 4 != 0 { s.model.live[idx(*t, s.model.live.len())] } else { s.model.issued[idx(*t, s.model.issued.len())] })
                    .collect();
                let (got, iterated) = R::entries_query(&mut s.real, ei, &ids, salt, *interleave);
                if let Some(sh) = s.shadow.as_mut() {
                    R::entries_query(sh, ei, &ids, salt, *interleave);
                }
                self.check_entries_query(*w, &ids, meta, salt, got)?;
                if let Some(rows) = iterated {
                    // the rows iterated while the entries were in use: views and entry views are
                    // disjoint, so they must show exactly the matching entities' values
                    let qm = QueryMeta { name: meta.name, views: meta.views, has_id: false, filter: Flt::None, text: meta.text };
                    let out = QueryOut { rows, hints: Vec::new() };
                    self.check_query_ex(*w, &qm, QMode::Fold, None, &out, false, &["C03"])?;
                }
            }
            Op::Reserve { w, shape, n } => {
                let shapes = R::shapes();
                let (mask, _, _) = shapes[idx(*shape, shapes.len())];
                let s = self.slot(*w);
                R::reserve(&mut s.real, mask, *n as usize);
                if let Some(sh) = s.shadow.as_mut() {
                    R::reserve(sh, mask, *n as usize);
                }
            }
            Op::Shrink { w } => {
                let s = self.slot(*w);
                let before = R::dump(&s.real);
                R::shrink_to_fit(&mut s.real);
                if let Some(sh) = s.shadow.as_mut() {
                    R::shrink_to_fit(sh);
                }
                let after = R::dump(&s.real);
                if after.archetypes.len() < before.archetypes.len() {
                    self.stats.archetype_deleted += 1;
                    self.stats.drop_paths |= 64;
                }
                let cap = |d: &brood::verif::Dump| d.archetypes.iter().map(|a| a.entity_identifiers_capacity).sum::<usize>();
                if cap(&after) < cap(&before) {
                    self.stats.shrink_freed += 1;
                }
            }
            Op::CloneTo { src, dst } => {
                let (src, dst) = (*src as usize % NSLOTS, *dst as usize % NSLOTS);
                if src == dst {
                    self.stats.noops += 1;
                    return Ok(());
                }
                self.ensure(src);
                let s = self.slots[src].as_ref().unwrap();
                let sd = R::dump(&s.real);
                if sd.archetypes.iter().any(|a| a.length == 0) {
                    self.stats.clone_src_empty_arch += 1;
                }
                let c = talloc::tracked(|| R::clone_world(&s.real));
                let e1 = R::eq(&c, &s.real);
                let e2 = R::eq(&s.real, &c);
                let mut model = s.model.clone();
                model.forget_serials();
                if self.slots[dst].is_some() {
                    self.stats.drop_paths |= 32;
                }
                self.slots[dst] = Some(Slot { real: c, model, shadow: None, deserialized: false });
                if !e1 || !e2 {
                    fail!(self, &["C10", "C16"], "clone-eq", "world.clone() == world is {e1}, world == world.clone() is {e2}");
                }
                self.clone_marks = [false; NSLOTS];
                self.clone_marks[dst] = true;
                self.stats.clones += 1;
            }
            Op::CloneFrom { dst, src } => {
                let (src, dst) = (*src as usize % NSLOTS, *dst as usize % NSLOTS);
                if src == dst {
                    self.stats.noops += 1;
                    return Ok(());
                }
                self.ensure(src);
                self.ensure(dst);
                let mut d = self.slots[dst].take().unwrap();
                let s = self.slots[src].as_ref().unwrap();
                let sd = R::dump(&s.real);
                let dd = R::dump(&d.real);
                let src_ids: HashSet<&Vec<u8>> = sd.archetypes.iter().map(|a| &a.identifier).collect();
                if dd.archetypes.iter().any(|a| !src_ids.contains(&a.identifier)) {
                    self.stats.clone_dst_extra_arch += 1;
                }
                if sd.archetypes.iter().any(|a| a.length == 0) {
                    self.stats.clone_src_empty_arch += 1;
                }
                if !d.model.live.is_empty() {
                    self.stats.drop_paths |= 16;
                }
                talloc::tracked(|| R::clone_from(&mut d.real, &s.real));
                d.model = s.model.clone();
                d.model.forget_serials();
                d.shadow = None;
                d.deserialized = false;
                self.slots[dst] = Some(d);
                self.clone_marks = [false; NSLOTS];
                self.clone_marks[dst] = true;
                self.stats.clones += 1;
            }
            Op::RoundTrip { w, enc, mode } => {
                self.round_trip(*w, *enc, *mode)?;
            }
            Op::ResSet { w, which, p } => {
                let which = *which as usize % 4;
                let s = self.slot(*w);
                let pv = R::res_norm(which, *p % 60_000);
                R::res_set(&mut s.real, which, pv);
                if let Some(sh) = s.shadow.as_mut() {
                    R::res_set(sh, which, pv);
                }
                s.model.res[which] = pv;
                self.stats.res_writes += 1;
            }
            Op::ResView { w, rv, path, salt } => {
                let metas = R::res_views();
                if metas.is_empty() {
                    self.stats.noops += 1;
                    return Ok(());
                }
                let ri = idx(*rv, metas.len());
                let meta = &metas[ri];
                let salt = if meta.views.iter().any(|(_, m)| *m) { *salt } else { None };
                let s = self.slot(*w);
                let got = R::run_res_view(&mut s.real, ri, *path, salt);
                if let Some(sh) = s.shadow.as_mut() {
                    R::run_res_view(sh, ri, *path, salt);
                }
                let step = self.step;
                let how = ["view_resources", "query(..).resources", "run_system resource views"][*path as usize % 3];
                if got.len() != meta.views.len() {
                    return Err(Fail { props: &["C15"], oracle: "resource-view", msg: format!("{how}: {} values for {} resource views", got.len(), meta.views.len()), step });
                }
                let s = self.slot(*w);
                let mut writes = 0;
                for ((ri_, mutable), (gi, (before, after))) in meta.views.iter().zip(&got) {
                    let i = *ri_ as usize;
                    if gi != ri_ || !before.ok || before.payload != s.model.res[i] || (s.model.res_serial[i] != 0 && before.serial != s.model.res_serial[i]) {
                        return Err(Fail { props: &["C15"], oracle: "resource-view", msg: format!("{how} {:?}: the view of resource {i} reads {} (serial {:#x}); the resource of that type holds {} (serial {:#x})", meta.views, before.payload, before.serial, s.model.res[i], s.model.res_serial[i]), step });
                    }
                    if let (true, Some(salt)) = (*mutable, salt) {
                        let want = R::res_norm(i, mutate(before.payload, salt));
                        if after.payload != want {
                            return Err(Fail { props: &["C15"], oracle: "resource-view", msg: format!("{how}: write through &mut view of resource {i} reads back {} instead of {want}", after.payload), step });
                        }
                        s.model.res[i] = want;
                        writes += 1;
                    }
                }
                self.stats.res_writes += writes;
                if meta.views.len() >= 2 && salt.is_some() && meta.views.windows(2).any(|p| p[0].0 > p[1].0) {
                    self.stats.res_multi += 1;
                }
            }
            Op::Eq { a, b } => {
                let (a, b) = (*a as usize % NSLOTS, *b as usize % NSLOTS);
                self.ensure(a);
                self.ensure(b);
                let (wa, wb) = (self.slots[a].as_ref().unwrap(), self.slots[b].as_ref().unwrap());
                let ab = R::eq(&wa.real, &wb.real);
                let ba = R::eq(&wb.real, &wa.real);
                let aa = R::eq(&wa.real, &wa.real);
                let same = model_same(&wa.model, &wb.model);
                if same {
                    self.stats.eq_pairs_equal_snap += 1;
                } else {
                    self.stats.eq_pairs_differ += 1;
                }
                if ab {
                    self.stats.eq_true += 1;
                }
                if !aa {
                    fail!(self, &["C16"], "eq-reflexive", "world == world is false");
                }
                if ab != ba {
                    fail!(self, &["C16"], "eq-symmetric", "a == b is {ab} but b == a is {ba}");
                }
                if ab && !same {
                    fail!(self, &["C16"], "eq-sound", "worlds compare equal but hold different entities, values or resources: {}", model_diff(&wa.model, &wb.model));
                }
            }
            Op::Debug { w } => {
                let s = self.slot(*w);
                let text = R::debug(&s.real);
                if text.is_empty() {
                    fail!(self, &["C01"], "debug", "empty Debug output");
                }
            }
            Op::DropWorld { w } => {
                let w = *w as usize % NSLOTS;
                if self.slots[w].is_some() {
                    self.stats.drop_paths |= 32;
                }
                let s = self.slots[w].take();
                talloc::tracked(|| drop(s));
                self.clone_marks[w] = false;
            }
        }
        Ok(())
    }

    fn round_trip(&mut self, w: u8, enc: Enc, mode: RtMode) -> FResult {
        let step = self.step;
        let s = self.slot(w);
        let d = R::dump(&s.real);
        let nonempty = d.archetypes.iter().filter(|a| a.length > 0).count();
        let rich = !d.free.is_empty() && nonempty >= 2;
        let chain = mode == RtMode::Chain && s.shadow.is_some();
        let source: &R::W = if chain { s.shadow.as_ref().unwrap() } else { &s.real };
        let encoded = match talloc::tracked(|| R::serialize(source, enc)) {
            Ok(e) => e,
            Err(e) => return Err(Fail { props: &["C06"], oracle: "serialize", msg: format!("serialization ({enc:?}) failed: {e}"), step }),
        };
        let de = match talloc::tracked(|| R::deserialize(&encoded)) {
            Ok(w) => w,
            Err(e) => {
                return Err(Fail {
                    props: &["C06"],
                    oracle: "deserialize-own-output",
                    msg: format!("deserializing the world's own serialization ({enc:?}, source {}) failed: {e}", if chain { "deserialized twin" } else if s.deserialized { "deserialized world" } else { "original" }),
                    step,
                })
            }
        };
        self.stats.rt_total += 1;
        if rich {
            self.stats.rt_with_free_and_2arch += 1;
        }
        self.stats.drop_paths |= 128;
        let s = self.slot(w);
        let e1 = R::eq(&de, &s.real);
        let e2 = R::eq(&s.real, &de);
        let mut de = de;
        let snap_de = snapshot_map::<R>(&mut de);
        let snap_or = snapshot_map::<R>(&mut s.real);
        let res_de = R::res_snapshot(&de);
        let res_or = R::res_snapshot(&s.real);
        let fail = |oracle: &'static str, msg: String| Err(Fail { props: &["C06"], oracle, msg, step });
        if !e1 || !e2 {
            let f = Fail { props: &["C06", "C16"], oracle: "roundtrip-eq", msg: format!("deserialized == original is {e1}, original == deserialized is {e2} ({enc:?})"), step };
            if self.mute && self.prop != "C06" && self.prop != "C16" && !self.muted.contains("roundtrip-eq") {
                // another property's business: record it and let the copy take part in the rest of
                // the history (C02 and C01 speak about worlds that went through a round trip)
                self.muted.insert("roundtrip-eq");
                self.foreign.push(f);
            } else {
                talloc::tracked(|| drop(de));
                return Err(f);
            }
        }
        let s = self.slot(w);
        match (snap_de, snap_or) {
            (Ok(a), Ok(b)) => {
                if let Some(diff) = snap_diff(&a, &b) {
                    talloc::tracked(|| drop(de));
                    return fail("roundtrip-snapshot", format!("deserialized world differs from the original ({enc:?}): {diff}"));
                }
            }
            (Err(e), _) | (_, Err(e)) => {
                talloc::tracked(|| drop(de));
                return fail("roundtrip-snapshot", format!("snapshot after round trip: {e}"));
            }
        }
        for i in 0..4 {
            if res_de[i].payload != res_or[i].payload {
                talloc::tracked(|| drop(de));
                return Err(Fail { props: &["C06", "C15"], oracle: "roundtrip-resources", msg: format!("resource {i} is {} after the round trip, {} before", res_de[i].payload, res_or[i].payload), step });
            }
        }
        let s = self.slot(w);
        match mode {
            RtMode::Check => talloc::tracked(|| drop(de)),
            RtMode::Shadow | RtMode::Chain => {
                let old = s.shadow.replace(de);
                talloc::tracked(|| drop(old));
            }
            RtMode::Replace => {
                let old = std::mem::replace(&mut s.real, de);
                talloc::tracked(|| drop(old));
                s.model.forget_serials();
                s.deserialized = true;
                self.stats.deser_replaced += 1;
            }
        }
        Ok(())
    }

    // ------------------------------------------------------------------------------------------
    // query oracles (C03)
    // ------------------------------------------------------------------------------------------

    fn expected_row(comps: &[Option<MVal>], views: &[(u8, VK)]) -> Vec<(u8, Option<(u32, u64)>)> {
        views.iter().map(|(c, _)| (*c, comps[*c as usize].as_ref().map(|m| (m.payload, m.serial)))).collect()
    }

    fn check_row(&mut self, w: u8, id: Option<Id>, views: &[(u8, VK)], salt: Option<u32>, row: &QRow, what: &str) -> FResult {
        // If the id is known, compare against that entity and apply the writes to the model.
        let step = self.step;
        let s = self.slot(w);
        let Some(id) = id else { return Ok(()) };
        let Some(comps) = s.model.ents.get_mut(&id) else {
            return Err(Fail { props: &["C03"], oracle: "query-row", msg: format!("{what}: result for {id:?}, which is not a live entity"), step });
        };
        if row.cols.len() != views.len() {
            return Err(Fail { props: &["C03"], oracle: "query-row", msg: format!("{what}: {} columns for {} views", row.cols.len(), views.len()), step });
        }
        for ((c, k), (rc, got)) in views.iter().zip(&row.cols) {
            let m = &mut comps[*c as usize];
            match (m.as_mut(), got) {
                (None, None) if k.optional() => {}
                (Some(m), Some((before, after))) => {
                    if !before.ok {
                        return Err(Fail { props: &["C03", "C05"], oracle: "query-value-valid", msg: format!("{what}: component {c} of {id:?} read through {k:?} is not a valid live value (serial {:#x})", before.serial), step });
                    }
                    if before.payload != m.payload || (m.serial != 0 && before.serial != m.serial) {
                        return Err(Fail { props: &["C03"], oracle: "query-value", msg: format!("{what}: component {c} of {id:?} read through {k:?} is payload {} serial {:#x}, expected payload {} serial {:#x}", before.payload, before.serial, m.payload, m.serial), step });
                    }
                    if let (true, Some(salt)) = (k.mutable(), salt) {
                        let want = R::norm(*c as usize, mutate(before.payload, salt));
                        if after.payload != want {
                            return Err(Fail { props: &["C03"], oracle: "query-write", msg: format!("{what}: write through {k:?} to component {c} of {id:?} reads back {} instead of {want}", after.payload), step });
                        }
                        m.payload = want;
                    }
                }
                (None, Some(_)) => return Err(Fail { props: &["C03"], oracle: "query-optional", msg: format!("{what}: view {k:?} of component {c} yielded a value for {id:?}, which lacks that component"), step }),
                (Some(_), None) => return Err(Fail { props: &["C03"], oracle: "query-optional", msg: format!("{what}: view {k:?} of component {c} yielded None for {id:?}, which has that component"), step }),
                (None, None) => return Err(Fail { props: &["C03"], oracle: "query-optional", msg: format!("{what}: non-optional view of absent component {c} for {id:?}"), step }),
            }
            let _ = rc;
        }
        Ok(())
    }

    fn check_query(&mut self, w: u8, meta: &QueryMeta, mode: QMode, salt: Option<u32>, out: &QueryOut) -> FResult {
        self.check_query_ex(w, meta, mode, salt, out, false, &["C03"])
    }

    /// `restrict`: only the matching entities whose (pre-write) values satisfy `row_pred` are
    /// expected among the results; writes are still expected on every matching entity.
    fn check_query_ex(&mut self, w: u8, meta: &QueryMeta, mode: QMode, salt: Option<u32>, out: &QueryOut, restrict: bool, props: &'static [&'static str]) -> FResult {
        let step = self.step;
        self.stats.q_cases += 1;
        let s = self.slot(w);
        let all_matching: Vec<Id> = s.model.live.iter().copied().filter(|id| meta.matches(Model::mask(&s.model.ents[id]))).collect();
        let expected: Vec<Id> = if restrict {
            all_matching.iter().copied().filter(|id| { let comps = &s.model.ents[id]; let cols: Vec<(u8, Option<u32>)> = meta.views.iter().map(|(c, _)| (*c, comps[*c as usize].as_ref().map(|m| m.payload))).collect(); crate::reg::row_pred(&cols) }).collect()
        } else {
            all_matching.clone()
        };
        let total = s.model.live.len();
        let what = format!("{} ({:?})", meta.text, mode);
        let c03 = |oracle: &'static str, msg: String| Err(Fail { props, oracle, msg, step });
        if out.rows.len() != expected.len() {
            return c03("query-count", format!("{what}: {} results, {} live entities match (of {total})", out.rows.len(), expected.len()));
        }
        // size hints
        let n = expected.len();
        for (i, (lo, hi)) in out.hints.iter().enumerate() {
            let consumed = match mode {
                QMode::Mixed(k) if i > k as usize => continue,
                _ => i,
            };
            let remaining = n.saturating_sub(consumed);
            self.stats.q_hints += 1;
            if *lo > remaining || hi.map_or(false, |h| h < remaining) {
                return c03("size-hint", format!("{what}: size_hint() = ({lo}, {hi:?}) with {remaining} results remaining (after {consumed} of {n})"));
            }
        }
        if meta.has_id {
            let mut seen = HashSet::new();
            let exp: HashSet<Id> = expected.iter().copied().collect();
            for row in &out.rows {
                let id = row.id.unwrap();
                if !seen.insert(id) {
                    return c03("query-dup", format!("{what}: {id:?} yielded twice"));
                }
                if !exp.contains(&id) {
                    return c03("query-set", format!("{what}: {id:?} yielded but it does not match (live: {})", self.slot(w).model.ents.contains_key(&id)));
                }
            }
            for row in &out.rows {
                self.check_row(w, row.id, meta.views, salt, row, &what)?;
            }
            if let (true, Some(salt)) = (restrict, salt) {
                for id in all_matching.iter().filter(|id| !exp.contains(id)) {
                    let comps = self.slot(w).model.ents.get_mut(id).unwrap();
                    for (c, k) in meta.views {
                        if k.mutable() {
                            if let Some(m) = comps[*c as usize].as_mut() {
                                m.payload = R::norm(*c as usize, mutate(m.payload, salt));
                            }
                        }
                    }
                }
            }
        } else {
            // no identifier in the views: compare as multisets of values, then apply writes by serial
            let s = self.slot(w);
            let mut want: Vec<Vec<(u8, Option<(u32, u64)>)>> = expected.iter().map(|id| Self::expected_row(&s.model.ents[id], meta.views)).collect();
            let mut got: Vec<Vec<(u8, Option<(u32, u64)>)>> = out
                .rows
                .iter()
                .map(|r| r.cols.iter().map(|(c, o)| (*c, o.map(|(b, _)| (b.payload, if R::has_serial(*c as usize) { b.serial } else { 0 })))).collect())
                .collect();
            // serials not yet adopted in the model compare as 0 on both sides
            for (wrow, id) in want.iter_mut().zip(&expected) {
                for (c, v) in wrow.iter_mut() {
                    if let Some((_, ser)) = v {
                        if !R::has_serial(*c as usize) {
                            *ser = 0;
                        }
                    }
                }
                let _ = id;
            }
            let unknown = want.iter().any(|r| r.iter().any(|(c, v)| R::has_serial(*c as usize) && matches!(v, Some((_, 0)))));
            if unknown {
                for r in got.iter_mut().chain(want.iter_mut()) {
                    for (_, v) in r.iter_mut() {
                        if let Some((_, ser)) = v {
                            *ser = 0;
                        }
                    }
                }
            }
            want.sort();
            got.sort();
            if want != got {
                let pos = want.iter().zip(&got).position(|(a, b)| a != b).unwrap_or(0);
                return c03("query-multiset", format!("{what}: result values differ from the matching entities' values; first difference: got {:?}, expected {:?}", got.get(pos), want.get(pos)));
            }
            for row in &out.rows {
                for (c, o) in &row.cols {
                    if let Some((b, _)) = o {
                        if !b.ok {
                            return Err(Fail { props: &["C03", "C05"], oracle: "query-value-valid", msg: format!("{what}: component {c} value is not a valid live value (serial {:#x})", b.serial), step });
                        }
                    }
                }
            }
            if let Some(salt) = salt {
                // every matching entity's mutable viewed components are rewritten
                for id in &all_matching {
                    let comps = self.slot(w).model.ents.get_mut(id).unwrap();
                    for (c, k) in meta.views {
                        if k.mutable() {
                            if let Some(m) = comps[*c as usize].as_mut() {
                                m.payload = R::norm(*c as usize, mutate(m.payload, salt));
                            }
                        }
                    }
                }
                for row in &out.rows {
                    for ((c, k), (_, o)) in meta.views.iter().zip(&row.cols) {
                        if let (true, Some((b, a))) = (k.mutable(), o) {
                            let want = R::norm(*c as usize, mutate(b.payload, salt));
                            if a.payload != want {
                                return c03("query-write", format!("{what}: write through {k:?} to component {c} reads back {} instead of {want}", a.payload));
                            }
                        }
                    }
                }
            }
        }
        // non-triviality
        if n > 0 && n < total {
            self.stats.q_nontrivial += 1;
        }
        for (i, (_, k)) in meta.views.iter().enumerate() {
            if k.optional() {
                let some = out.rows.iter().any(|r| r.cols[i].1.is_some());
                let none = out.rows.iter().any(|r| r.cols[i].1.is_none());
                if some && none {
                    self.stats.q_opt_both += 1;
                }
            }
        }
        Ok(())
    }

    fn check_par_query(&mut self, w: u8, meta: &QueryMeta, term: PTerm, salt: Option<u32>, out: ParOut) -> FResult {
        let step = self.step;
        const P: &[&str] = &["C09"];
        let what = format!("par_query {} ({term:?})", meta.text);
        let s = self.slot(w);
        let matching: Vec<Id> = s.model.live.iter().copied().filter(|id| meta.matches(Model::mask(&s.model.ents[id]))).collect();
        let cols_of = |s: &Slot<R>, id: &Id| -> Vec<(u8, Option<u32>)> { let comps = &s.model.ents[id]; meta.views.iter().map(|(c, _)| (*c, comps[*c as usize].as_ref().map(|m| m.payload))).collect() };
        let satisfying: Vec<Id> = matching.iter().copied().filter(|id| crate::reg::row_pred(&cols_of(s, id))).collect();
        match term {
            PTerm::ForEach | PTerm::Collect | PTerm::FoldReduce | PTerm::System | PTerm::FilterCollect => {
                // no two results may hand out mutable access to the same value
                let mut addrs = HashSet::new();
                for r in &out.rows {
                    for ((_, k), (c, o)) in meta.views.iter().zip(&r.cols) {
                        if let (true, Some((_, after))) = (k.mutable(), o) {
                            // zero-sized values legitimately share one address
                            if R::comp_kind(*c as usize).0 != ledger::Kind::Zst {
                                self.stats.par_mut_addresses += 1;
                                if !addrs.insert((c, after.addr)) {
                                    return Err(Fail { props: P, oracle: "par-aliasing", msg: format!("{what}: two results give mutable access to the same value of component {c} (address {:#x})", after.addr), step });
                                }
                            }
                        }
                    }
                }
                let q = QueryOut { rows: out.rows, hints: Vec::new() };
                self.check_query_ex(w, meta, QMode::Fold, salt, &q, term == PTerm::FilterCollect, P)
            }
            PTerm::Count => {
                let got = out.count.unwrap_or(usize::MAX);
                if got != matching.len() {
                    return Err(Fail { props: P, oracle: "par-count", msg: format!("{what}: count() = {got}, {} live entities match", matching.len()), step });
                }
                if let Some(salt) = salt {
                    for id in &matching {
                        let comps = self.slot(w).model.ents.get_mut(id).unwrap();
                        for (c, k) in meta.views {
                            if k.mutable() {
                                if let Some(m) = comps[*c as usize].as_mut() {
                                    m.payload = R::norm(*c as usize, mutate(m.payload, salt));
                                }
                            }
                        }
                    }
                }
                Ok(())
            }
            PTerm::FindAny => match out.found.unwrap_or(None) {
                None if satisfying.is_empty() => Ok(()),
                None => Err(Fail { props: P, oracle: "par-find", msg: format!("{what}: find_any found nothing although {} matching entities satisfy the predicate", satisfying.len()), step }),
                Some(row) => {
                    if !crate::reg::qrow_pred(&row) {
                        return Err(Fail { props: P, oracle: "par-find", msg: format!("{what}: find_any returned a row that does not satisfy the predicate"), step });
                    }
                    if meta.has_id {
                        let id = row.id.unwrap();
                        if !satisfying.contains(&id) {
                            return Err(Fail { props: P, oracle: "par-find", msg: format!("{what}: find_any returned {id:?}, which is not a matching entity satisfying the predicate"), step });
                        }
                        self.check_row(w, Some(id), meta.views, None, &row, &what).map_err(|mut f| {
                            f.props = P;
                            f
                        })
                    } else {
                        let got: Vec<(u8, Option<u32>)> = row.cols.iter().map(|(c, o)| (*c, o.map(|(b, _)| b.payload))).collect();
                        let s = self.slot(w);
                        if !satisfying.iter().any(|id| cols_of(s, id) == got) {
                            return Err(Fail { props: P, oracle: "par-find", msg: format!("{what}: find_any returned values {got:?} that no matching entity holds"), step });
                        }
                        Ok(())
                    }
                }
            },
            PTerm::Any => {
                let got = out.any.unwrap_or(false);
                if got != !satisfying.is_empty() {
                    return Err(Fail { props: P, oracle: "par-any", msg: format!("{what}: any() = {got} but {} matching entities satisfy the predicate", satisfying.len()), step });
                }
                Ok(())
            }
        }
    }

    fn check_entry_query(&mut self, w: u8, id: Id, meta: &QueryMeta, salt: Option<u32>, got: Option<Option<QRow>>) -> FResult {
        let step = self.step;
        self.stats.q_cases += 1;
        let s = self.slot(w);
        let what = format!("World::entry({id:?}).query {}", meta.text);
        let live = s.model.ents.get(&id).map(|c| Model::mask(c));
        match (live, got) {
            (None, None) => Ok(()),
            (None, Some(_)) => Err(Fail { props: &["C02"], oracle: "stale-entry", msg: format!("{what}: entry exists for an identifier that is not live"), step }),
            (Some(_), None) => Err(Fail { props: &["C02"], oracle: "live-entry", msg: format!("{what}: no entry for a live identifier"), step }),
            (Some(mask), Some(row)) => {
                let m = meta.matches(mask);
                match row {
                    None if !m => Ok(()),
                    None => Err(Fail { props: &["C03"], oracle: "entry-query", msg: format!("{what}: None although the entity (components {mask:#b}) satisfies views and filter"), step }),
                    Some(_) if !m => Err(Fail { props: &["C03"], oracle: "entry-query", msg: format!("{what}: Some although the entity (components {mask:#b}) does not satisfy views and filter"), step }),
                    Some(row) => {
                        if meta.has_id && row.id != Some(id) {
                            return Err(Fail { props: &["C03"], oracle: "entry-query-id", msg: format!("{what}: identifier view yields {:?}", row.id), step });
                        }
                        self.stats.q_nontrivial += 1;
                        self.check_row(w, Some(id), meta.views, salt, &row, &what)
                    }
                }
            }
        }
    }

    fn check_entries_query(&mut self, w: u8, ids: &[Id], meta: &EntryMeta, salt: Option<u32>, got: EntriesOut) -> FResult {
        let step = self.step;
        self.stats.q_cases += 1;
        if got.len() != ids.len() {
            return Err(Fail { props: &["C03"], oracle: "entries", msg: "wrong number of probe results".into(), step });
        }
        for (id, g) in ids.iter().zip(got) {
            let what = format!("entries.entry({id:?}).query {}", meta.text);
            let s = self.slot(w);
            let live = s.model.ents.get(id).map(|c| Model::mask(c));
            match (live, g) {
                (None, None) => {}
                (None, Some(_)) => return Err(Fail { props: &["C02"], oracle: "stale-entry", msg: format!("{what}: entry exists for an identifier that is not live"), step }),
                (Some(_), None) => return Err(Fail { props: &["C02"], oracle: "live-entry", msg: format!("{what}: no entry for a live identifier"), step }),
                (Some(mask), Some(row)) => {
                    let m = meta.sub_matches(mask);
                    // sub-view whose super view is absent for this entity
                    if meta.sub_views.iter().any(|(c, _)| mask >> c & 1 == 0) {
                        self.stats.q_entry_absent_super += 1;
                    }
                    match row {
                        None if !m => {}
                        None => return Err(Fail { props: &["C03"], oracle: "entries-query", msg: format!("{what}: None although the entity (components {mask:#b}) satisfies sub-views and filter"), step }),
                        Some(_) if !m => return Err(Fail { props: &["C03"], oracle: "entries-query", msg: format!("{what}: Some although the entity (components {mask:#b}) does not satisfy sub-views and filter"), step }),
                        Some(row) => {
                            if meta.sub_has_id && row.id != Some(*id) {
                                return Err(Fail { props: &["C03"], oracle: "entries-query-id", msg: format!("{what}: identifier view yields {:?}", row.id), step });
                            }
                            self.stats.q_nontrivial += 1;
                            self.check_row(w, Some(*id), meta.sub_views, salt, &row, &what)?;
                        }
                    }
                }
            }
        }
        Ok(())
    }

    // ------------------------------------------------------------------------------------------
    // global oracles, run after every step
    // ------------------------------------------------------------------------------------------

    /// With the per-step oracles off (interpreter tier, fault enumeration) the bookkeeping the
    /// oracles rely on is not kept; an explicit check then only reads every value of every world,
    /// which must be live.
    fn check_light(&mut self) -> FResult {
        let step = self.step;
        for w in 0..NSLOTS {
            let Some(s) = self.slots[w].as_mut() else { continue };
            for row in R::snapshot(&mut s.real) {
                for (c, o) in row.comps.iter().enumerate() {
                    if let Some(o) = o {
                        if !o.ok {
                            return Err(Fail { props: &["C05", "C04"], oracle: "value-valid", msg: format!("world {w}: entity {:?} component {c}: payload {} serial {:#x} is not a live value", row.id, o.payload, o.serial), step });
                        }
                    }
                }
            }
        }
        Ok(())
    }

    pub fn check_all(&mut self) -> FResult {
        if !self.checks {
            return self.check_light();
        }
        let step = self.step;
        // (1) ledger errors: double drops, drops of unknown / reinterpreted values
        let errs = ledger::take_errors();
        if let (Some(e), true) = (errs.first(), self.on("ledger")) {
            let props: &'static [&'static str] = if e.contains("reinterpreted") || e.contains("freed/uninitialised") { &["C04", "C05"] } else { &["C04"] };
            return Err(Fail { props, oracle: "ledger", msg: format!("{e} ({} ledger errors in this step)", errs.len()), step });
        }
        // (2) allocator errors
        talloc::check_quarantine();
        if let (Some(d), true) = (talloc::describe(&talloc::errors()), self.on("allocator")) {
            return Err(Fail { props: &["C05"], oracle: "allocator", msg: d, step });
        }
        // (2b) independent of any snapshot: a value that left the reference maps in this step must
        // have been dropped by now, and a value the maps still hold must be alive
        {
            let mut known: HashSet<u64> = HashSet::new();
            for s in self.slots.iter().flatten() {
                for comps in s.model.ents.values() {
                    for m in comps.iter().flatten() {
                        if m.serial != 0 {
                            known.insert(m.serial);
                        }
                    }
                }
                known.extend(s.model.res_serial.iter().filter(|x| **x != 0));
            }
            if self.on("dropped-on-exit") {
                let live: HashSet<u64> = ledger::live_serials().into_iter().collect();
                let lingering: Vec<String> = self.known_prev.iter().filter(|x| !known.contains(x) && live.contains(x)).take(4).map(|x| format!("{x:#x}")).collect();
                let early: Vec<String> = known.iter().filter(|x| !live.contains(x)).take(4).map(|x| format!("{x:#x}")).collect();
                if !lingering.is_empty() || !early.is_empty() {
                    return Err(Fail { props: &["C04"], oracle: "dropped-on-exit", msg: format!("values that left their world in this step (removed, overwritten, detached, cleared, replaced or world dropped) but were not dropped: {lingering:?}; values still held by a world but already dropped: {early:?}"), step });
                }
            }
        }
        let (on_len, on_fresh, on_shared, on_resolve, on_resolve2, on_audit, on_twin, on_once, on_count, on_lock) = (
            self.on("len"), self.on("fresh-value"), self.on("value-shared"), self.on("resolve"), self.on("resolve-same-entity"), self.on("audit"), self.on("audit-twin"), self.on("exactly-once"), self.on("exactly-once-count"), self.on("lockstep-snapshot"),
        );
        let mut all_serials: HashMap<u64, (usize, &'static str)> = HashMap::new();
        let mut counts: HashMap<(u8, u8), i64> = HashMap::new();
        let made = std::mem::take(&mut self.made_this_step);
        for w in 0..NSLOTS {
            let Some(s) = self.slots[w].as_mut() else { continue };
            // (3) snapshot == model
            let snap = match snapshot_map::<R>(&mut s.real) {
                Ok(m) => m,
                Err(e) => return Err(Fail { props: &["C01", "C13"], oracle: "snapshot", msg: format!("world {w}: {e}"), step }),
            };
            let len = R::len(&s.real);
            let empty = R::is_empty(&s.real);
            if on_len && (len != s.model.ents.len() || empty != s.model.ents.is_empty()) {
                return Err(Fail { props: &["C01", "C13"], oracle: "len", msg: format!("world {w}: len() = {len}, is_empty() = {empty}, reference map holds {} entities", s.model.ents.len()), step });
            }
            if snap.len() != s.model.ents.len() {
                let extra: Vec<&Id> = snap.keys().filter(|k| !s.model.ents.contains_key(k)).take(3).collect();
                let missing: Vec<&Id> = s.model.ents.keys().filter(|k| !snap.contains_key(k)).take(3).collect();
                return Err(Fail { props: &["C01"], oracle: "live-set", msg: format!("world {w}: query sees {} entities, reference map holds {}; unexpected {extra:?}, missing {missing:?}", snap.len(), s.model.ents.len()), step });
            }
            for id in s.model.live.clone() {
                let comps = s.model.ents.get_mut(&id).unwrap();
                let Some(obs) = snap.get(&id) else {
                    return Err(Fail { props: &["C01"], oracle: "live-set", msg: format!("world {w}: live entity {id:?} is not found by a query"), step });
                };
                for c in 0..R::N {
                    match (comps[c].as_mut(), obs[c]) {
                        (None, None) => {}
                        (Some(m), Some(o)) => {
                            if !o.ok {
                                return Err(Fail { props: &["C01", "C05", "C04"], oracle: "value-valid", msg: format!("world {w}: component {c} of {id:?} is not a valid live value of its type (payload {} serial {:#x}; expected payload {})", o.payload, o.serial, m.payload), step });
                            }
                            if o.payload != m.payload {
                                return Err(Fail { props: &["C01"], oracle: "value", msg: format!("world {w}: component {c} of {id:?} holds {} but the reference map holds {}", o.payload, m.payload), step });
                            }
                            if R::has_serial(c) {
                                if m.serial == 0 {
                                    if on_fresh && !made.contains(&o.serial) {
                                        return Err(Fail { props: &["C04", "C10"], oracle: "fresh-value", msg: format!("world {w}: component {c} of {id:?} entered the world in this step but carries serial {:#x}, which was not constructed in this step (a copy shares identity with another value)", o.serial), step });
                                    }
                                    m.serial = o.serial;
                                } else if m.serial != o.serial {
                                    return Err(Fail { props: &["C01", "C04"], oracle: "value-identity", msg: format!("world {w}: component {c} of {id:?} is now the value with serial {:#x}, it was {:#x} (values exchanged between entities or re-created)", o.serial, m.serial), step });
                                }
                                if let (Some((ow, _)), true) = (all_serials.insert(o.serial, (w, "component")), on_shared) {
                                    return Err(Fail { props: &["C04", "C10"], oracle: "value-shared", msg: format!("value with serial {:#x} is held twice (worlds {ow} and {w})", o.serial), step });
                                }
                            } else {
                                let (k, n) = R::comp_kind(c);
                                *counts.entry((k as u8, n)).or_insert(0) += 1;
                            }
                        }
                        (None, Some(o)) => return Err(Fail { props: &["C01"], oracle: "component-set", msg: format!("world {w}: {id:?} has component {c} (payload {}) but the reference map does not", o.payload), step }),
                        (Some(m), None) => return Err(Fail { props: &["C01"], oracle: "component-set", msg: format!("world {w}: {id:?} lacks component {c} (reference map: payload {})", m.payload), step }),
                    }
                }
            }
            // (7) resources
            let res = R::res_snapshot(&s.real);
            for i in 0..4 {
                if !res[i].ok || res[i].payload != s.model.res[i] {
                    return Err(Fail { props: &["C15"], oracle: "resource", msg: format!("world {w}: resource {i} reads {} (valid: {}), expected {}", res[i].payload, res[i].ok, s.model.res[i]), step });
                }
                if res[i].serial != 0 {
                    if s.model.res_serial[i] == 0 {
                        s.model.res_serial[i] = res[i].serial;
                    } else if s.model.res_serial[i] != res[i].serial {
                        return Err(Fail { props: &["C15", "C04"], oracle: "resource-identity", msg: format!("world {w}: resource {i} was replaced by another value"), step });
                    }
                    if all_serials.insert(res[i].serial, (w, "resource")).is_some() && on_shared {
                        return Err(Fail { props: &["C04", "C10", "C15"], oracle: "value-shared", msg: format!("resource value with serial {:#x} is held twice", res[i].serial), step });
                    }
                } else {
                    *counts.entry((ledger::Kind::Res as u8, 2)).or_insert(0) += 1;
                }
            }
            // (6) identifier probes (only for worlds this step operated on)
            let touched = self.touched[w];
            if touched {
            let issued: Vec<Id> = if s.model.issued.len() > 200 {
                let mut v = s.model.issued[..40].to_vec();
                v.extend_from_slice(&s.model.issued[s.model.issued.len() - 160..]);
                v
            } else {
                s.model.issued.clone()
            };
            let es = R::entries_snapshot(&mut s.real, &issued);
            let d = R::dump(&s.real);
            for (id, e) in issued.iter().zip(es) {
                let live = s.model.ents.contains_key(id);
                let c = R::contains(&s.real, *id);
                let h = R::has_entry(&mut s.real, *id);
                if on_resolve && (c != live || h != live || e.is_some() != live) {
                    // a single-entity query that yields a result for an identifier that is not live
                    // (or none for a live one) is also C03's "one result per live entity ... and
                    // nothing else ... the same holds through World::entry and query-time Entries"
                    let props: &'static [&'static str] = if h != live || e.is_some() != live { &["C02", "C03"] } else { &["C02"] };
                    return Err(Fail { props, oracle: "resolve", msg: format!("world {w}: identifier {id:?} is {} but contains() = {c}, entry().is_some() = {h}, Entries::entry().is_some() = {}", if live { "live" } else { "stale" }, e.is_some()), step });
                }
                if !live {
                    // stale id whose slot is in use again?
                    if let Some((idx, _)) = id_parts(*id) {
                        if d.slots.get(idx).map_or(false, |s| s.1.is_some()) {
                            self.stats.stale_probed_after_reuse += 1;
                        }
                    }
                    continue;
                }
                let comps = &s.model.ents[id];
                let (Some(via_entry), Some(via_entries)) = (R::entry_snapshot(&mut s.real, *id), e.as_ref()) else { continue };
                for (path, obs) in [("World::entry", &via_entry), ("Entries::entry", via_entries)] {
                    for c in 0..R::N {
                        let ok = match (&comps[c], obs[c]) {
                            (None, None) => true,
                            (Some(m), Some(o)) => o.payload == m.payload && (!R::has_serial(c) || o.serial == m.serial),
                            _ => false,
                        };
                        if !ok && on_resolve2 {
                            return Err(Fail { props: &["C02", "C03"], oracle: "resolve-same-entity", msg: format!("world {w}: {path}({id:?}) shows component {c} = {:?}, the entity holds {:?} (identifier resolves to another entity's row)", obs[c].map(|o| (o.payload, o.serial)), comps[c]), step });
                        }
                    }
                }
            }
            // (5) audit
            self.stats.audits += 1;
            if on_audit { audit::<R>(&d, &s.model, len) } else { Ok(()) }.map_err(|msg| Fail { props: &["C13"], oracle: "audit", msg: format!("world {w}: {msg}"), step })?;
            // classification
            let nonempty = d.archetypes.iter().filter(|a| a.length > 0).count();
            self.stats.max_nonempty_archetypes = self.stats.max_nonempty_archetypes.max(nonempty);
            for a in &d.archetypes {
                if a.length == 0 {
                    continue;
                }
                for c in 0..R::N {
                    if a.identifier[c / 8] >> (c % 8) & 1 == 1 {
                        match R::comp_kind(c).0 {
                            ledger::Kind::Heap => self.stats.heap_column = true,
                            ledger::Kind::Wide | ledger::Kind::Zst => self.stats.wide_or_zst_present = true,
                            _ => {}
                        }
                    }
                }
            }
            if let Some(p) = &self.prev[w] {
                let ids = |x: &brood::verif::Dump| { let mut v: Vec<Vec<u8>> = x.archetypes.iter().map(|a| a.identifier.clone()).collect(); v.sort(); v };
                if p.free != d.free || ids(p) != ids(&d) {
                    self.stats.audits_after_change += 1;
                }
                for a in &d.archetypes {
                    match p.archetypes.iter().find(|b| b.identifier == a.identifier) {
                        Some(b) => {
                            if a.columns.iter().zip(&b.columns).any(|(x, y)| x.1 > y.1 && y.1 > 0 && x.1 != usize::MAX) {
                                self.stats.reallocs += 1;
                            }
                            if b.length == 0 && a.length > 1 && b.columns.iter().all(|c| c.1 == 0 || c.1 == usize::MAX) && b.entity_identifiers_capacity == 0 {
                                self.stats.adoption += 1;
                            }
                        }
                        None => {
                            if a.length > 1 {
                                self.stats.adoption += 1;
                            }
                        }
                    }
                }
            }
            self.prev[w] = Some(d.clone());
            }
            // shadow (C06 lock-step)
            if let Some(sh) = s.shadow.as_mut() {
                let ssnap = match snapshot_map::<R>(sh) {
                    Ok(m) => m,
                    Err(e) => return Err(Fail { props: &["C06"], oracle: "lockstep-snapshot", msg: format!("world {w} deserialized twin: {e}"), step }),
                };
                if let (Some(diff), true) = (snap_diff(&ssnap, &snap), on_lock) {
                    return Err(Fail { props: &["C06"], oracle: "lockstep-snapshot", msg: format!("world {w}: deserialized twin diverged from the original: {diff}"), step });
                }
                let sres = R::res_snapshot(sh);
                for i in 0..4 {
                    if sres[i].payload != s.model.res[i] {
                        return Err(Fail { props: &["C06", "C15"], oracle: "lockstep-resources", msg: format!("world {w}: deserialized twin's resource {i} is {}", sres[i].payload), step });
                    }
                    if sres[i].serial != 0 {
                        all_serials.insert(sres[i].serial, (w, "shadow resource"));
                    } else {
                        *counts.entry((ledger::Kind::Res as u8, 2)).or_insert(0) += 1;
                    }
                }
                for (id, obs) in &ssnap {
                    for c in 0..R::N {
                        if let Some(o) = obs[c] {
                            if R::has_serial(c) {
                                if let (Some((ow, _)), true) = (all_serials.insert(o.serial, (w, "shadow component")), on_shared) {
                                    return Err(Fail { props: &["C04", "C06"], oracle: "value-shared", msg: format!("deserialized twin of world {w} shares the value with serial {:#x} ({id:?}) with world {ow}", o.serial), step });
                                }
                            } else {
                                let (k, n) = R::comp_kind(c);
                                *counts.entry((k as u8, n)).or_insert(0) += 1;
                            }
                        }
                    }
                }
                let sd = R::dump(sh);
                if on_twin { audit_structure(&sd, R::N) } else { Ok(()) }.map_err(|msg| Fail { props: &["C13", "C06"], oracle: "audit-twin", msg: format!("world {w} deserialized twin: {msg}"), step })?;
            }
        }
        // (4) ledger == union of everything the worlds hold
        let live = ledger::live_serials();
        if on_once && (live.len() != all_serials.len() || live.iter().any(|s| !all_serials.contains_key(s))) {
            let leaked: Vec<String> = live.iter().filter(|s| !all_serials.contains_key(s)).take(4).map(|s| format!("{s:#x}")).collect();
            let early: Vec<String> = all_serials.keys().filter(|s| !live.contains(s)).take(4).map(|s| format!("{s:#x}")).collect();
            return Err(Fail { props: &["C04"], oracle: "exactly-once", msg: format!("values alive but owned by no world (not dropped when they left): {leaked:?}; values held by a world but already dropped: {early:?}"), step });
        }
        for c in 0..R::N {
            if !R::has_serial(c) {
                let (k, n) = R::comp_kind(c);
                if k == ledger::Kind::Odd {
                    continue; // plain data without a destructor: nothing to count
                }
                let want = counts.get(&(k as u8, n)).copied().unwrap_or(0);
                let have = ledger::live_count(k, n);
                if want != have && on_count {
                    return Err(Fail { props: &["C04"], oracle: "exactly-once-count", msg: format!("{have} live values of component {c} ({k:?}) but the worlds hold {want}"), step });
                }
            }
        }
        let want = counts.get(&(ledger::Kind::Res as u8, 2)).copied().unwrap_or(0);
        let have = ledger::live_count(ledger::Kind::Res, 2);
        if want != have && on_count {
            return Err(Fail { props: &["C04", "C15"], oracle: "exactly-once-count", msg: format!("{have} live zero-sized resources but the worlds hold {want}"), step });
        }
        // remember what the reference maps hold now (after adoption) for the next step's (2b)
        let mut known: HashSet<u64> = HashSet::new();
        for s in self.slots.iter().flatten() {
            for comps in s.model.ents.values() {
                for m in comps.iter().flatten() {
                    if m.serial != 0 {
                        known.insert(m.serial);
                    }
                }
            }
            known.extend(s.model.res_serial.iter().filter(|x| **x != 0));
        }
        self.known_prev = known;
        Ok(())
    }

    /// Drop every world and check that nothing is left (C04 final drop, C05 leaks).
    pub fn finish(mut self) -> (CaseStats, FResult) {
        let step = self.step + 1;
        let slots = std::mem::take(&mut self.slots);
        talloc::tracked(|| drop(slots));
        let mut r = Ok(());
        let errs = ledger::take_errors();
        if let Some(e) = errs.first() {
            r = Err(Fail { props: &["C04"], oracle: "ledger-final", msg: format!("while dropping the worlds: {e}"), step });
        }
        if r.is_ok() {
            let live = ledger::live_serials();
            if !live.is_empty() {
                r = Err(Fail { props: &["C04"], oracle: "final-drop", msg: format!("{} values still alive after every world was dropped, e.g. serial {:#x}", live.len(), live[0]), step });
            }
        }
        if r.is_ok() {
            for c in 0..R::N {
                if !R::has_serial(c) {
                    let (k, n) = R::comp_kind(c);
                    if k == ledger::Kind::Odd {
                        continue;
                    }
                    let have = ledger::live_count(k, n);
                    if have != 0 {
                        r = Err(Fail { props: &["C04"], oracle: "final-drop-count", msg: format!("{have} values of component {c} ({k:?}) alive after every world was dropped"), step });
                    }
                }
            }
        }
        if r.is_ok() {
            talloc::check_quarantine();
            if let Some(d) = talloc::describe(&talloc::errors()) {
                r = Err(Fail { props: &["C05"], oracle: "allocator-final", msg: d, step });
            }
        }
        if r.is_ok() {
            let (blocks, bytes) = talloc::live_tracked();
            if blocks != 0 {
                r = Err(Fail { props: &["C05"], oracle: "leak", msg: format!("{blocks} blocks ({bytes} bytes) allocated by the library are still allocated after every world was dropped"), step });
            }
        }
        (self.stats, r)
    }
}

pub fn id_parts(id: Id) -> Option<(usize, u64)> {
    // `entity::Identifier` is opaque, but it is two plain words: (index: usize, generation: u64).
    // The layout is checked against the Debug form once per process.
    use std::sync::atomic::{AtomicU8, Ordering};
    static LAYOUT: AtomicU8 = AtomicU8::new(0); // 0 unknown, 1 (index, generation) words, 2 other
    fn via_debug(id: Id) -> Option<(usize, u64)> {
        let s = format!("{id:?}");
        let i = s.find("index: ")? + 7;
        let j = s[i..].find(',')? + i;
        let g = s.find("generation: ")? + 12;
        let h = s[g..].find(' ').map(|x| x + g).unwrap_or(s.len() - 1);
        Some((s[i..j].parse().ok()?, s[g..h].trim_end_matches('}').trim().parse().ok()?))
    }
    fn via_bytes(id: Id) -> (usize, u64) {
        // SAFETY: only called when Identifier is 16 bytes; it is a Copy struct of two words.
        let words: [u64; 2] = unsafe { std::mem::transmute_copy(&id) };
        (words[0] as usize, words[1])
    }
    match LAYOUT.load(Ordering::Relaxed) {
        1 => Some(via_bytes(id)),
        2 => via_debug(id),
        _ => {
            let d = via_debug(id)?;
            if std::mem::size_of::<Id>() != 16 {
                LAYOUT.store(2, Ordering::Relaxed);
            } else if d.0 as u64 != d.1 {
                // an identifier whose two fields differ tells the field order
                LAYOUT.store(if via_bytes(id) == d { 1 } else { 2 }, Ordering::Relaxed);
            }
            Some(d)
        }
    }
}

pub type SnapMap = HashMap<Id, Vec<Option<Obs>>>;

pub fn snapshot_map<R: Reg>(w: &mut R::W) -> Result<SnapMap, String> {
    let rows = R::snapshot(w);
    let mut m = HashMap::with_capacity(rows.len());
    for r in rows {
        if m.insert(r.id, r.comps).is_some() {
            return Err(format!("a query over all entities yields identifier {:?} twice", r.id));
        }
    }
    Ok(m)
}

/// Compare two snapshots as maps id -> payloads (serials and addresses differ by construction).
pub fn snap_diff(a: &SnapMap, b: &SnapMap) -> Option<String> {
    if a.len() != b.len() {
        return Some(format!("{} entities vs {}", a.len(), b.len()));
    }
    for (id, ca) in a {
        let Some(cb) = b.get(id) else { return Some(format!("{id:?} only on one side")) };
        for (c, (x, y)) in ca.iter().zip(cb).enumerate() {
            let same = match (x, y) {
                (None, None) => true,
                (Some(x), Some(y)) => x.payload == y.payload && x.ok && y.ok,
                _ => false,
            };
            if !same {
                return Some(format!("{id:?} component {c}: {:?} vs {:?}", x.map(|o| (o.payload, o.ok)), y.map(|o| (o.payload, o.ok))));
            }
        }
    }
    None
}

fn model_same(a: &Model, b: &Model) -> bool {
    model_diff(a, b).is_empty()
}

fn model_diff(a: &Model, b: &Model) -> String {
    if a.res != b.res {
        return format!("resources {:?} vs {:?}", a.res, b.res);
    }
    if a.ents.len() != b.ents.len() {
        return format!("{} vs {} entities", a.ents.len(), b.ents.len());
    }
    for (id, ca) in &a.ents {
        let Some(cb) = b.ents.get(id) else { return format!("{id:?} only in one") };
        for c in 0..ca.len() {
            if ca[c].as_ref().map(|m| m.payload) != cb[c].as_ref().map(|m| m.payload) {
                return format!("{id:?} component {c}");
            }
        }
    }
    String::new()
}

/// Structural audit of a dump (no model needed): C13 (i)-(iii), (v) and identifier uniqueness.
pub fn audit_structure(d: &brood::verif::Dump, n: usize) -> Result<(), String> {
    let idlen = (n + 7) / 8;
    let mut by_addr: HashMap<usize, usize> = HashMap::new();
    let mut by_bytes: HashMap<&Vec<u8>, usize> = HashMap::new();
    let mut rows = 0usize;
    for (ai, a) in d.archetypes.iter().enumerate() {
        if a.identifier.len() != idlen {
            return Err(format!("archetype identifier has {} bytes, expected {idlen}", a.identifier.len()));
        }
        if n % 8 != 0 && idlen > 0 && a.identifier[idlen - 1] >> (n % 8) != 0 {
            return Err(format!("archetype identifier {:?} has bits set beyond the registry length", a.identifier));
        }
        if by_bytes.insert(&a.identifier, ai).is_some() {
            return Err(format!("two archetype tables with the same component set {:?}", a.identifier));
        }
        by_addr.insert(a.identifier_address, ai);
        let bits: u32 = a.identifier.iter().map(|b| b.count_ones()).sum();
        if a.columns.len() != bits as usize {
            return Err(format!("archetype {:?} has {} columns for {bits} components", a.identifier, a.columns.len()));
        }
        if a.entity_identifiers.len() != a.length || a.entity_identifiers_capacity < a.length {
            return Err(format!("archetype {:?}: {} identifiers, capacity {}, length {}", a.identifier, a.entity_identifiers.len(), a.entity_identifiers_capacity, a.length));
        }
        for (ci, (_, cap)) in a.columns.iter().enumerate() {
            if *cap < a.length {
                return Err(format!("archetype {:?}: column {ci} has capacity {cap} < length {}", a.identifier, a.length));
            }
        }
        rows += a.length;
        for (r, (idx, gen)) in a.entity_identifiers.iter().enumerate() {
            let Some((sgen, loc)) = d.slots.get(*idx) else {
                return Err(format!("row {r} of archetype {:?} carries identifier ({idx},{gen}) beyond the {} slots", a.identifier, d.slots.len()));
            };
            if sgen != gen {
                return Err(format!("row {r} of archetype {:?} carries identifier ({idx},{gen}) but the slot has generation {sgen}", a.identifier));
            }
            if *loc != Some((a.identifier_address, r)) {
                let desc = loc.map(|(addr, row)| format!("archetype {:?} row {row}", by_addr.get(&addr).map(|i| &d.archetypes[*i].identifier)));
                return Err(format!("row {r} of archetype {:?} carries identifier ({idx},{gen}) but that slot points at {desc:?}", a.identifier));
            }
        }
    }
    let active = d.slots.iter().filter(|s| s.1.is_some()).count();
    if active != rows || d.len != rows {
        return Err(format!("{rows} stored rows, {active} active slots, len field {}", d.len));
    }
    for (i, (_, loc)) in d.slots.iter().enumerate() {
        if let Some((addr, row)) = loc {
            let Some(ai) = by_addr.get(addr) else { return Err(format!("slot {i} points at an archetype that does not exist")) };
            if *row >= d.archetypes[*ai].length {
                return Err(format!("slot {i} points at row {row} of an archetype with {} rows", d.archetypes[*ai].length));
            }
        }
    }
    let mut free_seen = HashSet::new();
    for f in &d.free {
        if !free_seen.insert(*f) {
            return Err(format!("slot {f} is on the free list twice"));
        }
        match d.slots.get(*f) {
            None => return Err(format!("free list names slot {f} beyond the {} slots", d.slots.len())),
            Some((_, Some(_))) => return Err(format!("slot {f} is on the free list but active")),
            _ => {}
        }
    }
    let inactive = d.slots.len() - active;
    if free_seen.len() != inactive {
        let lost: Vec<usize> = (0..d.slots.len()).filter(|i| d.slots[*i].1.is_none() && !free_seen.contains(i)).take(4).collect();
        return Err(format!("{inactive} inactive slots but {} on the free list; lost (neither active nor reusable): {lost:?}", free_seen.len()));
    }
    for t in &d.type_id_lookup {
        if !by_addr.contains_key(t) {
            return Err("type lookup entry points at an archetype that does not exist".into());
        }
    }
    let mut findable = HashSet::new();
    for (kaddr, klen, target) in &d.foreign_identifier_lookup {
        let Some(ai) = by_addr.get(target) else { return Err("identifier lookup entry points at an archetype that does not exist".into()) };
        if kaddr != target || *klen != idlen {
            return Err(format!("identifier lookup key (addr {kaddr:#x}, len {klen}) does not alias its archetype's identifier (addr {target:#x}, len {idlen})"));
        }
        findable.insert(*ai);
    }
    if findable.len() != d.archetypes.len() {
        return Err(format!("{} archetypes but only {} findable through the identifier lookup", d.archetypes.len(), findable.len()));
    }
    Ok(())
}

pub fn audit<R: Reg>(d: &brood::verif::Dump, model: &Model, len: usize) -> Result<(), String> {
    audit_structure(d, R::N)?;
    if d.len != len || len != model.ents.len() {
        return Err(format!("len() = {len}, len field {}, reference map {}", d.len, model.ents.len()));
    }
    // (iv) every entity sits in the table of its component set
    let by_parts: HashMap<(usize, u64), (&Id, u32)> = model.ents.iter().filter_map(|(id, comps)| id_parts(*id).map(|p| (p, (id, Model::mask(comps))))).collect();
    for a in &d.archetypes {
        let mut mask = 0u32;
        for (i, b) in a.identifier.iter().enumerate() {
            mask |= (*b as u32) << (8 * i);
        }
        for (idx, gen) in &a.entity_identifiers {
            match by_parts.get(&(*idx, *gen)) {
                None => return Err(format!("stored row with identifier ({idx},{gen}) is not a live entity of the reference map")),
                Some((id, m)) => {
                    if *m != mask {
                        return Err(format!("{id:?} has component set {m:#b} but is stored in the table for {mask:#b}"));
                    }
                }
            }
        }
    }
    Ok(())
}
