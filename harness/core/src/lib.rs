pub mod interp;
pub mod ops;
pub mod reg;
pub mod runner;
pub mod crash;
pub mod deser;
pub mod fault;
