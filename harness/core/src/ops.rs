//! Operation language of histories and the proptest strategies generating them.

use crate::reg::{Enc, PTerm, QMode, ENCS, PTERMS};
use proptest::prelude::*;
use serde::{Deserialize, Serialize};

#[derive(Clone, Copy, Debug, Serialize, Deserialize, PartialEq, Eq)]
pub enum NSel {
    Exact(u16),
    FreeMinus1,
    Free,
    FreePlus1,
}

/// What to do with the deserialized world of a round trip.
#[derive(Clone, Copy, Debug, Serialize, Deserialize, PartialEq, Eq)]
pub enum RtMode {
    /// compare and drop
    Check,
    /// keep as lock-step shadow of the slot
    Shadow,
    /// the deserialized world replaces the original in its slot
    Replace,
    /// serialize the shadow again (chained round trip), replacing the shadow
    Chain,
}

#[derive(Clone, Debug, Serialize, Deserialize, PartialEq)]
pub enum Op {
    Insert { w: u8, shape: u16, order: u8, p: u32 },
    Extend { w: u8, shape: u16, order: u8, mode: u8, n: NSel, p: u32 },
    Remove { w: u8, t: u16 },
    RemoveStale { w: u8, t: u16 },
    Clear { w: u8 },
    EntryAdd { w: u8, t: u16, comp: u8, p: u32 },
    EntryRemove { w: u8, t: u16, comp: u8 },
    /// several add / remove / observe steps through one `Entry` handle: (kind, component, payload)
    EntryChain { w: u8, t: u16, steps: Vec<(u8, u8, u32)> },
    /// `Batch::new` with column lengths that differ (must panic)
    ExtendRagged { w: u8, shape: u16, lens: Vec<u8>, p: u32 },
    Query { w: u8, q: u16, mode: QMode, salt: Option<u32> },
    ParQuery { w: u8, q: u16, pool: u8, term: PTerm, salt: Option<u32> },
    EntryQuery { w: u8, t: u16, q: u16, salt: Option<u32> },
    EntriesQuery {
        w: u8,
        e: u16,
        ts: Vec<u16>,
        salt: Option<u32>,
        #[serde(default)]
        interleave: bool,
    },
    Reserve { w: u8, shape: u16, n: u16 },
    Shrink { w: u8 },
    CloneTo { src: u8, dst: u8 },
    CloneFrom { dst: u8, src: u8 },
    RoundTrip { w: u8, enc: Enc, mode: RtMode },
    ResSet { w: u8, which: u8, p: u32 },
    ResView { w: u8, rv: u16, path: u8, salt: Option<u32> },
    Eq { a: u8, b: u8 },
    Debug { w: u8 },
    DropWorld { w: u8 },
}

impl Op {
    pub fn name(&self) -> &'static str {
        match self {
            Op::Insert { .. } => "Insert",
            Op::Extend { .. } => "Extend",
            Op::Remove { .. } => "Remove",
            Op::RemoveStale { .. } => "RemoveStale",
            Op::Clear { .. } => "Clear",
            Op::EntryAdd { .. } => "EntryAdd",
            Op::EntryRemove { .. } => "EntryRemove",
            Op::EntryChain { .. } => "EntryChain",
            Op::ExtendRagged { .. } => "ExtendRagged",
            Op::Query { .. } => "Query",
            Op::ParQuery { .. } => "ParQuery",
            Op::EntryQuery { .. } => "EntryQuery",
            Op::EntriesQuery { .. } => "EntriesQuery",
            Op::Reserve { .. } => "Reserve",
            Op::Shrink { .. } => "Shrink",
            Op::CloneTo { .. } => "CloneTo",
            Op::CloneFrom { .. } => "CloneFrom",
            Op::RoundTrip { .. } => "RoundTrip",
            Op::ResSet { .. } => "ResSet",
            Op::ResView { .. } => "ResView",
            Op::Eq { .. } => "Eq",
            Op::Debug { .. } => "Debug",
            Op::DropWorld { .. } => "DropWorld",
        }
    }
}

/// Relative weights of the operations; each property's check uses its own profile.
#[derive(Clone, Debug)]
pub struct Profile {
    pub insert: u32,
    pub extend: u32,
    pub remove: u32,
    pub remove_stale: u32,
    pub clear: u32,
    pub entry_add: u32,
    pub entry_remove: u32,
    pub entry_chain: u32,
    pub extend_ragged: u32,
    pub query: u32,
    pub par_query: u32,
    /// allow (rare) batches of thousands of rows
    pub big_batches: bool,
    pub entry_query: u32,
    pub entries_query: u32,
    pub reserve: u32,
    pub shrink: u32,
    pub clone_to: u32,
    pub clone_from: u32,
    pub round_trip: u32,
    pub res_set: u32,
    pub res_view: u32,
    pub eq: u32,
    pub debug: u32,
    pub drop_world: u32,
    /// probability (percent) that an op addresses world slot 0
    pub w0_bias: u32,
    pub max_ops: usize,
    /// weight of the shadow/replace/chain modes among round trips
    pub rt_shadow: u32,
    /// bias towards small shape indices (few archetypes => more rows per archetype)
    pub few_shapes: bool,
}

impl Profile {
    pub fn base() -> Self {
        Profile {
            insert: 14,
            extend: 10,
            remove: 10,
            remove_stale: 2,
            clear: 1,
            entry_add: 8,
            entry_remove: 6,
            entry_chain: 4,
            extend_ragged: 1,
            query: 6,
            par_query: 2,
            big_batches: false,
            entry_query: 3,
            entries_query: 3,
            reserve: 2,
            shrink: 2,
            clone_to: 2,
            clone_from: 2,
            round_trip: 3,
            res_set: 1,
            res_view: 1,
            eq: 1,
            debug: 1,
            drop_world: 1,
            w0_bias: 70,
            max_ops: 60,
            rt_shadow: 2,
            few_shapes: true,
        }
    }

    pub fn for_property(prop: &str, thorough: bool) -> Self {
        let mut p = Self::base();
        match prop {
            "C02" => {
                p.entry_chain = 8;
                p.remove = 16;
                p.remove_stale = 6;
                p.clear = 3;
                p.extend = 14;
                p.query = 2;
                p.shrink = 3;
                // "through ... clone and serde round trips": the copy takes over and goes on issuing
                p.round_trip = 6;
                p.rt_shadow = 6;
                p.clone_from = 3;
                p.clone_to = 3;
            }
            "C03" => {
                p.query = 20;
                p.entry_query = 10;
                p.entries_query = 10;
                p.round_trip = 1;
            }
            "C04" => {
                p.extend_ragged = 3;
                p.entry_chain = 8;
                p.remove = 12;
                p.entry_add = 12;
                p.entry_remove = 10;
                p.clear = 3;
                p.clone_from = 5;
                p.shrink = 3;
                p.drop_world = 3;
                p.round_trip = 4;
            }
            "C05" => {
                p.reserve = 6;
                p.shrink = 6;
                p.extend = 14;
                p.entry_add = 10;
                p.entry_remove = 8;
                p.clear = 3;
                p.clone_from = 4;
                // only the p-registries compile parallel queries; there they run under the same
                // allocator and crash oracles as everything else
                p.par_query = 8;
            }
            "C06" => {
                p.round_trip = 10;
                p.rt_shadow = 6;
                p.clear = 2;
                p.shrink = 3;
                p.remove = 12;
                p.query = 3;
            }
            "C09" => {
                p.par_query = 30;
                p.query = 2;
                p.extend = 16;
                p.insert = 10;
                p.big_batches = true;
                p.round_trip = 1;
                p.clone_to = 1;
                p.clone_from = 1;
                p.max_ops = 40;
            }
            "C10" => {
                p.clone_to = 8;
                p.clone_from = 8;
                p.w0_bias = 45;
                p.reserve = 3;
            }
            "C13" => {
                p.extend = 14;
                p.remove = 14;
                p.shrink = 4;
                p.clear = 2;
                p.clone_from = 3;
                p.round_trip = 4;
                p.query = 2;
            }
            "C15" => {
                p.res_view = 16;
                p.res_set = 6;
                p.round_trip = 4;
                p.clone_to = 4;
                p.clone_from = 4;
            }
            "C16" => {
                p.eq = 12;
                p.clone_to = 6;
                p.round_trip = 5;
                p.w0_bias = 45;
                p.res_set = 4;
            }
            _ => {}
        }
        if thorough {
            p.max_ops = 200;
        }
        p
    }
}

fn world_sel(bias: u32) -> impl Strategy<Value = u8> {
    prop_oneof![
        bias => Just(0u8),
        (100 - bias) / 2 + 1 => Just(1u8),
        (100 - bias) / 2 + 1 => Just(2u8),
    ]
}

fn nsel_big() -> impl Strategy<Value = NSel> {
    prop_oneof![
        6 => (0u16..8).prop_map(NSel::Exact),
        3 => Just(NSel::FreePlus1),
        6 => (8u16..70).prop_map(NSel::Exact),
        2 => (70u16..600).prop_map(NSel::Exact),
        1 => (600u16..6000).prop_map(NSel::Exact),
    ]
}

fn nsel() -> impl Strategy<Value = NSel> {
    prop_oneof![
        6 => (0u16..6).prop_map(NSel::Exact),
        2 => Just(NSel::FreeMinus1),
        2 => Just(NSel::Free),
        2 => Just(NSel::FreePlus1),
        2 => (6u16..40).prop_map(NSel::Exact),
        1 => (40u16..300).prop_map(NSel::Exact),
    ]
}

fn shape_sel(few: bool) -> BoxedStrategy<u16> {
    if few {
        // three quarters of the picks fall on a handful of shapes so that archetypes get rows
        prop_oneof![
            3 => prop::sample::select(vec![0x0000u16, 0x1234, 0x3fff, 0x7000, 0x9abc, 0xc000, 0xffff, 0x5555]),
            1 => any::<u16>(),
        ]
        .boxed()
    } else {
        any::<u16>().boxed()
    }
}

fn qmode() -> impl Strategy<Value = QMode> {
    prop_oneof![
        4 => Just(QMode::Next),
        2 => Just(QMode::Fold),
        2 => Just(QMode::System),
        2 => (0u8..6).prop_map(QMode::Mixed),
    ]
}

fn enc() -> impl Strategy<Value = Enc> {
    prop::sample::select(ENCS.to_vec())
}

pub fn op_strategy(p: &Profile) -> BoxedStrategy<Op> {
    let b = p.w0_bias;
    let few = p.few_shapes;
    let rts = p.rt_shadow;
    let mut v: Vec<(u32, BoxedStrategy<Op>)> = Vec::new();
    v.push((p.insert, (world_sel(b), shape_sel(few), 0u8..3, any::<u32>()).prop_map(|(w, shape, order, p)| Op::Insert { w, shape, order, p }).boxed()));
    let ns = if p.big_batches { nsel_big().boxed() } else { nsel().boxed() };
    v.push((p.extend, (world_sel(b), shape_sel(few), 0u8..3, 0u8..3, ns, any::<u32>()).prop_map(|(w, shape, order, mode, n, p)| Op::Extend { w, shape, order, mode, n, p }).boxed()));
    v.push((p.remove, (world_sel(b), any::<u16>()).prop_map(|(w, t)| Op::Remove { w, t }).boxed()));
    v.push((p.remove_stale, (world_sel(b), any::<u16>()).prop_map(|(w, t)| Op::RemoveStale { w, t }).boxed()));
    v.push((p.clear, world_sel(b).prop_map(|w| Op::Clear { w }).boxed()));
    v.push((p.entry_add, (world_sel(b), any::<u16>(), any::<u8>(), any::<u32>()).prop_map(|(w, t, comp, p)| Op::EntryAdd { w, t, comp, p }).boxed()));
    v.push((p.entry_remove, (world_sel(b), any::<u16>(), any::<u8>()).prop_map(|(w, t, comp)| Op::EntryRemove { w, t, comp }).boxed()));
    v.push((p.entry_chain, (world_sel(b), any::<u16>(), prop::collection::vec((0u8..3, any::<u8>(), any::<u32>()), 2..7)).prop_map(|(w, t, steps)| Op::EntryChain { w, t, steps }).boxed()));
    v.push((p.extend_ragged, (world_sel(b), shape_sel(few), prop::collection::vec(0u8..4, 2..5), any::<u32>()).prop_map(|(w, shape, lens, p)| Op::ExtendRagged { w, shape, lens, p }).boxed()));
    v.push((p.query, (world_sel(b), any::<u16>(), qmode(), prop::option::weighted(0.7, any::<u32>())).prop_map(|(w, q, mode, salt)| Op::Query { w, q, mode, salt }).boxed()));
    v.push((p.par_query, (world_sel(b), any::<u16>(), 0u8..6, prop::sample::select(PTERMS.to_vec()), prop::option::weighted(0.7, any::<u32>())).prop_map(|(w, q, pool, term, salt)| Op::ParQuery { w, q, pool, term, salt }).boxed()));
    v.push((p.entry_query, (world_sel(b), any::<u16>(), any::<u16>(), prop::option::weighted(0.7, any::<u32>())).prop_map(|(w, t, q, salt)| Op::EntryQuery { w, t, q, salt }).boxed()));
    v.push((p.entries_query, (world_sel(b), any::<u16>(), prop::collection::vec(any::<u16>(), 1..6), prop::option::weighted(0.7, any::<u32>()), any::<bool>()).prop_map(|(w, e, ts, salt, interleave)| Op::EntriesQuery { w, e, ts, salt, interleave }).boxed()));
    v.push((p.reserve, (world_sel(b), shape_sel(few), prop_oneof![0u16..8, 0u16..200, 200u16..4096]).prop_map(|(w, shape, n)| Op::Reserve { w, shape, n }).boxed()));
    v.push((p.shrink, world_sel(b).prop_map(|w| Op::Shrink { w }).boxed()));
    v.push((p.clone_to, (0u8..3, 0u8..3).prop_map(|(src, dst)| Op::CloneTo { src, dst }).boxed()));
    v.push((p.clone_from, (0u8..3, 0u8..3).prop_map(|(dst, src)| Op::CloneFrom { dst, src }).boxed()));
    v.push((
        p.round_trip,
        (world_sel(b), enc(), prop_oneof![3 => Just(RtMode::Check), rts => Just(RtMode::Shadow), rts => Just(RtMode::Replace), rts / 2 + 1 => Just(RtMode::Chain)])
            .prop_map(|(w, enc, mode)| Op::RoundTrip { w, enc, mode })
            .boxed(),
    ));
    v.push((p.res_set, (world_sel(b), 0u8..4, any::<u32>()).prop_map(|(w, which, p)| Op::ResSet { w, which, p }).boxed()));
    v.push((p.res_view, (world_sel(b), any::<u16>(), 0u8..3, prop::option::weighted(0.7, any::<u32>())).prop_map(|(w, rv, path, salt)| Op::ResView { w, rv, path, salt }).boxed()));
    v.push((p.eq, (0u8..3, 0u8..3).prop_map(|(a, b)| Op::Eq { a, b }).boxed()));
    v.push((p.debug, world_sel(b).prop_map(|w| Op::Debug { w }).boxed()));
    v.push((p.drop_world, (1u8..3).prop_map(|w| Op::DropWorld { w }).boxed()));
    let v: Vec<(u32, BoxedStrategy<Op>)> = v.into_iter().filter(|(w, _)| *w > 0).collect();
    proptest::strategy::Union::new_weighted(v).boxed()
}

pub fn history_strategy(p: &Profile) -> BoxedStrategy<Vec<Op>> {
    prop::collection::vec(op_strategy(p), 0..=p.max_ops).boxed()
}
