//! The interface between the generic interpreter and the generated, statically typed dispatch
//! tables (one per registry).

use serde::{Deserialize, Serialize};
use vcommon::comps::Obs;

pub type Id = brood::entity::Identifier;

/// The five encodings available offline.
#[derive(Clone, Copy, Debug, PartialEq, Eq, Hash, Serialize, Deserialize)]
pub enum Enc {
    Json,
    TokHrStruct,
    TokHrSeq,
    TokBinStruct,
    TokBinSeq,
}
pub const ENCS: [Enc; 5] = [Enc::Json, Enc::TokHrStruct, Enc::TokHrSeq, Enc::TokBinStruct, Enc::TokBinSeq];

impl Enc {
    pub fn human_readable(self) -> bool {
        matches!(self, Enc::Json | Enc::TokHrStruct | Enc::TokHrSeq)
    }
    pub fn struct_as_seq(self) -> bool {
        matches!(self, Enc::TokHrSeq | Enc::TokBinSeq)
    }
}

#[derive(Clone, Debug)]
pub enum Encoded {
    Json(String),
    Tokens(serde_assert::Tokens, Enc),
}

impl Encoded {
    pub fn size(&self) -> usize {
        match self {
            Encoded::Json(s) => s.len(),
            Encoded::Tokens(t, _) => t.0.len(),
        }
    }
}

/// A full row of the world as seen through the public query API.
#[derive(Clone, Debug, PartialEq)]
pub struct Row {
    pub id: Id,
    pub comps: Vec<Option<Obs>>,
}

/// View kinds.
#[derive(Clone, Copy, Debug, PartialEq, Eq)]
pub enum VK {
    Ref,
    Mut,
    OptRef,
    OptMut,
}

impl VK {
    pub fn optional(self) -> bool {
        matches!(self, VK::OptRef | VK::OptMut)
    }
    pub fn mutable(self) -> bool {
        matches!(self, VK::Mut | VK::OptMut)
    }
}

/// Filter expression emitted by the generator next to the Rust type, evaluated by the oracle on
/// the model's component set (never derived from the types under test).
#[derive(Clone, Debug)]
pub enum Flt {
    None,
    Has(u8),
    Not(&'static Flt),
    And(&'static Flt, &'static Flt),
    Or(&'static Flt, &'static Flt),
    /// a view used as filter: non-optional => Has, optional / identifier => true
    View(u8, VK),
    Ident,
    /// a list of views used as filter: conjunction
    Views(&'static [Flt]),
}

impl Flt {
    pub fn eval(&self, mask: u32) -> bool {
        match self {
            Flt::None | Flt::Ident => true,
            Flt::Has(c) => mask >> c & 1 == 1,
            Flt::Not(f) => !f.eval(mask),
            Flt::And(a, b) => a.eval(mask) && b.eval(mask),
            Flt::Or(a, b) => a.eval(mask) || b.eval(mask),
            Flt::View(c, k) => k.optional() || mask >> c & 1 == 1,
            Flt::Views(v) => v.iter().all(|f| f.eval(mask)),
        }
    }
}

/// Description of one compiled query type.
#[derive(Clone, Debug)]
pub struct QueryMeta {
    pub name: &'static str,
    /// (component index, kind) in the order written in `Views!`
    pub views: &'static [(u8, VK)],
    /// position of `entity::Identifier` among the views, if present
    pub has_id: bool,
    pub filter: Flt,
    /// text of the Rust types, for samples / replay readability
    pub text: &'static str,
}

impl QueryMeta {
    pub fn matches(&self, mask: u32) -> bool {
        self.filter.eval(mask) && self.views.iter().all(|(c, k)| k.optional() || mask >> c & 1 == 1)
    }
    pub fn mutates(&self) -> bool {
        self.views.iter().any(|(_, k)| k.mutable())
    }
}

/// One result of a query: the identifier (if viewed) and per view (component, before, after),
/// `None` when an optional view yielded `None`.
#[derive(Clone, Debug, Default)]
pub struct QRow {
    pub id: Option<Id>,
    pub cols: Vec<(u8, Option<(Obs, Obs)>)>,
}

#[derive(Clone, Debug, Default)]
pub struct QueryOut {
    pub rows: Vec<QRow>,
    /// size_hint taken before each `next()` (including the final one returning `None`)
    pub hints: Vec<(usize, Option<usize>)>,
}

/// How the iterator is consumed.
#[derive(Clone, Copy, Debug, PartialEq, Eq, Serialize, Deserialize)]
pub enum QMode {
    /// `next()` in a loop with `size_hint()` before each call
    Next,
    /// `for_each` (drives `fold`)
    Fold,
    /// through `run_system` on a generated `System`
    System,
    /// `next()` k times, then `for_each` on the partly consumed iterator
    Mixed(u8),
}

/// Terminal operation of a parallel query.
#[derive(Clone, Copy, Debug, PartialEq, Eq, Serialize, Deserialize)]
pub enum PTerm {
    ForEach,
    Collect,
    FoldReduce,
    Count,
    FilterCollect,
    FindAny,
    Any,
    /// through `run_par_system` on a generated `ParSystem`
    System,
}
pub const PTERMS: [PTerm; 8] = [PTerm::ForEach, PTerm::Collect, PTerm::FoldReduce, PTerm::Count, PTerm::FilterCollect, PTerm::FindAny, PTerm::Any, PTerm::System];

impl PTerm {
    /// short-circuiting terminals may stop early: they are run without writes
    pub fn short_circuit(self) -> bool {
        matches!(self, PTerm::FindAny | PTerm::Any)
    }
}

#[derive(Clone, Debug, Default)]
pub struct ParOut {
    pub rows: Vec<QRow>,
    pub count: Option<usize>,
    pub found: Option<Option<QRow>>,
    pub any: Option<bool>,
}

/// The row predicate used by the filtering / searching terminals (a function of the values read).
pub fn row_pred(cols: &[(u8, Option<u32>)]) -> bool {
    let s: u64 = cols.iter().map(|(c, v)| *c as u64 + v.map_or(7, |x| x as u64 % 1000)).sum();
    (s + cols.len() as u64) % 3 != 0
}

pub fn qrow_pred(r: &QRow) -> bool {
    let cols: Vec<(u8, Option<u32>)> = r.cols.iter().map(|(c, o)| (*c, o.map(|(b, _)| b.payload))).collect();
    row_pred(&cols)
}

pub fn par_consume<I>(term: PTerm, it: I) -> ParOut
where
    I: rayon::iter::ParallelIterator<Item = QRow>,
{
    use rayon::iter::ParallelIterator;
    let mut out = ParOut::default();
    match term {
        PTerm::ForEach | PTerm::System => {
            let rows = std::sync::Mutex::new(Vec::new());
            it.for_each(|r| rows.lock().unwrap().push(r));
            out.rows = rows.into_inner().unwrap();
        }
        PTerm::Collect => out.rows = it.collect(),
        PTerm::FoldReduce => {
            out.rows = it
                .fold(Vec::new, |mut v, r| {
                    v.push(r);
                    v
                })
                .reduce(Vec::new, |mut a, mut b| {
                    a.append(&mut b);
                    a
                })
        }
        PTerm::Count => out.count = Some(it.count()),
        PTerm::FilterCollect => out.rows = it.filter(qrow_pred).collect(),
        PTerm::FindAny => out.found = Some(it.find_any(qrow_pred)),
        PTerm::Any => out.any = Some(it.any(|r| qrow_pred(&r))),
    }
    out
}

pub const POOL_SIZES: [usize; 6] = [1, 2, 3, 4, 8, 16];

pub fn pool(i: usize) -> &'static rayon::ThreadPool {
    use std::sync::OnceLock;
    static POOLS: OnceLock<Vec<rayon::ThreadPool>> = OnceLock::new();
    &POOLS.get_or_init(|| POOL_SIZES.iter().map(|n| rayon::ThreadPoolBuilder::new().num_threads(*n).build().unwrap()).collect())[i % POOL_SIZES.len()]
}

/// Helper implemented for every view type so that generated code is uniform.
pub trait Observe {
    fn observe(self, salt: Option<u32>) -> Option<(Obs, Obs)>;
}

pub fn mutate(old: u32, salt: u32) -> u32 {
    (old.wrapping_mul(31).wrapping_add(salt) & 0x7fff_ffff) % 60_000
}

impl<'a, C: vcommon::Comp> Observe for &'a C {
    fn observe(self, _salt: Option<u32>) -> Option<(Obs, Obs)> {
        // every view handed to user code counts as a tick of the "system body" callback (C17)
        vcommon::ledger::tick(vcommon::ledger::Callback::Body);
        let o = self.obs();
        Some((o, o))
    }
}
impl<'a, C: vcommon::Comp> Observe for &'a mut C {
    fn observe(self, salt: Option<u32>) -> Option<(Obs, Obs)> {
        vcommon::ledger::tick(vcommon::ledger::Callback::Body);
        let before = self.obs();
        if let Some(s) = salt {
            self.set(mutate(before.payload, s));
        }
        Some((before, self.obs()))
    }
}
impl<'a, C: vcommon::Comp> Observe for Option<&'a C> {
    fn observe(self, salt: Option<u32>) -> Option<(Obs, Obs)> {
        self.and_then(|x| x.observe(salt))
    }
}
impl<'a, C: vcommon::Comp> Observe for Option<&'a mut C> {
    fn observe(self, salt: Option<u32>) -> Option<(Obs, Obs)> {
        self.and_then(|x| x.observe(salt))
    }
}

/// One compiled resource view list: (resource index, mutable) in the order written.
#[derive(Clone, Debug)]
pub struct ResViewMeta {
    pub views: &'static [(u8, bool)],
}

/// Helper for resource views, mirroring `Observe`.
pub trait ObserveRes {
    fn observe_res(self, salt: Option<u32>) -> (Obs, Obs);
}
impl<'a, T: vcommon::Resource> ObserveRes for &'a T {
    fn observe_res(self, _salt: Option<u32>) -> (Obs, Obs) {
        let o = self.obs();
        (o, o)
    }
}
impl<'a, T: vcommon::Resource> ObserveRes for &'a mut T {
    fn observe_res(self, salt: Option<u32>) -> (Obs, Obs) {
        let before = self.obs();
        if let Some(s) = salt {
            self.set(<T as vcommon::Resource>::norm(mutate(before.payload, s)));
        }
        (before, self.obs())
    }
}

/// One compiled (Views, EntryViews, SubViews) triple for query-time entries.
#[derive(Clone, Debug)]
pub struct EntryMeta {
    pub name: &'static str,
    pub views: &'static [(u8, VK)],
    pub entry_views: &'static [(u8, VK)],
    pub sub_views: &'static [(u8, VK)],
    pub sub_has_id: bool,
    pub sub_filter: Flt,
    pub text: &'static str,
}

impl EntryMeta {
    /// Does the single-entity sub-query yield `Some` for an entity with this component set?
    pub fn sub_matches(&self, mask: u32) -> bool {
        self.sub_filter.eval(mask) && self.sub_views.iter().all(|(c, k)| k.optional() || mask >> c & 1 == 1)
    }
}

/// Result of an entries probe: for each probed id, `None` when `entries.entry(id)` was `None`,
/// else `Some(None)` when the sub-query was `None`, else the row.
pub type EntriesOut = Vec<Option<Option<QRow>>>;

pub trait Reg: Sized + 'static {
    const NAME: &'static str;
    const N: usize;
    type W;

    fn norm(comp: usize, p: u32) -> u32;
    fn has_serial(comp: usize) -> bool;
    fn comp_kind(comp: usize) -> (vcommon::ledger::Kind, u8);
    /// (mask, number of compiled orders for insert, for extend)
    fn shapes() -> &'static [(u32, u8, u8)];

    fn new_world(res: [u32; 4]) -> Self::W;
    fn insert(w: &mut Self::W, mask: u32, order: u8, p: &[u32]) -> Id;
    /// mode 0: `Batch::new(columns)`, 1: `entities!((..),(..))` (1..=3 rows), 2: `entities!((..); n)`
    fn extend(w: &mut Self::W, mask: u32, order: u8, mode: u8, rows: &[Vec<u32>]) -> Vec<Id>;
    fn extend_modes(mask: u32, order: u8) -> u8;
    fn reserve(w: &mut Self::W, mask: u32, n: usize);
    fn entry_add(w: &mut Self::W, id: Id, comp: usize, p: u32) -> bool;
    fn entry_remove(w: &mut Self::W, id: Id, comp: usize) -> bool;
    /// A sequence of add (0) / remove (1) / observe (2) steps through ONE `Entry` handle; returns
    /// what the handle shows at every observe step, `None` if there is no entry.
    fn entry_chain(w: &mut Self::W, id: Id, steps: &[(u8, u8, u32)]) -> Option<Vec<Vec<Option<Obs>>>>;
    /// `Batch::new` with the given column lengths (one per component of the shape) + `extend`;
    /// `None` if this shape has no ragged variant compiled. Panics when the library does.
    fn extend_ragged(w: &mut Self::W, mask: u32, lens: &[usize], p: u32) -> Option<Vec<Id>>;
    fn snapshot(w: &mut Self::W) -> Vec<Row>;
    fn entry_snapshot(w: &mut Self::W, id: Id) -> Option<Vec<Option<Obs>>>;
    fn entries_snapshot(w: &mut Self::W, ids: &[Id]) -> Vec<Option<Vec<Option<Obs>>>>;

    fn remove(w: &mut Self::W, id: Id);
    fn clear(w: &mut Self::W);
    fn len(w: &Self::W) -> usize;
    fn is_empty(w: &Self::W) -> bool;
    fn contains(w: &Self::W, id: Id) -> bool;
    fn has_entry(w: &mut Self::W, id: Id) -> bool;
    fn shrink_to_fit(w: &mut Self::W);
    fn clone_world(w: &Self::W) -> Self::W;
    fn clone_from(dst: &mut Self::W, src: &Self::W);
    fn eq(a: &Self::W, b: &Self::W) -> bool;
    fn debug(w: &Self::W) -> String;
    fn serialize(w: &Self::W, enc: Enc) -> Result<Encoded, String>;
    fn deserialize(e: &Encoded) -> Result<Self::W, String>;
    fn dump(w: &Self::W) -> brood::verif::Dump;
    fn res_snapshot(w: &Self::W) -> [Obs; 4];
    fn res_set(w: &mut Self::W, which: usize, p: u32);
    fn res_norm(which: usize, p: u32) -> u32;

    fn queries() -> &'static [QueryMeta];
    fn run_query(w: &mut Self::W, q: usize, mode: QMode, salt: Option<u32>) -> QueryOut;
    /// single-entity query through `World::entry(id).query(..)` with the views/filter of query `q`
    fn entry_query(w: &mut Self::W, id: Id, q: usize, salt: Option<u32>) -> Option<Option<QRow>>;
    fn res_views() -> &'static [ResViewMeta];
    fn run_res_view(w: &mut Self::W, rv: usize, path: u8, salt: Option<u32>) -> Vec<(u8, (Obs, Obs))>;
    /// indices (into `queries()`) of the queries also compiled as parallel queries
    fn par_queries() -> &'static [usize];
    fn run_par_query(w: &mut Self::W, q: usize, term: PTerm, salt: Option<u32>, pool: &rayon::ThreadPool) -> ParOut;
    fn entry_metas() -> &'static [EntryMeta];
    /// run query `e.views`, and through its `entries` probe each id with `e.sub_views`
    /// `interleave`: also iterate the query and probe the entries between the items; returns the
    /// iterated rows as well
    fn entries_query(w: &mut Self::W, e: usize, ids: &[Id], salt: Option<u32>, interleave: bool) -> (EntriesOut, Option<Vec<QRow>>);
}

pub type Res4 = brood::Resources!(
    vcommon::ResNum<0>,
    vcommon::ResStr<1>,
    vcommon::ResZst<2>,
    vcommon::ResWide<3>
);

pub fn json_serialize<T: serde::Serialize>(w: &T) -> Result<Encoded, String> {
    serde_json::to_string(w).map(Encoded::Json).map_err(|e| e.to_string())
}

pub fn tok_serialize<T: serde::Serialize>(w: &T, enc: Enc) -> Result<Encoded, String> {
    use serde_assert::ser::SerializeStructAs;
    let ser = serde_assert::Serializer::builder()
        .is_human_readable(enc.human_readable())
        .serialize_struct_as(if enc.struct_as_seq() { SerializeStructAs::Seq } else { SerializeStructAs::Struct })
        .build();
    w.serialize(&ser).map(|t| Encoded::Tokens(t, enc)).map_err(|e| e.to_string())
}

pub fn any_deserialize<T: for<'de> serde::Deserialize<'de>>(e: &Encoded) -> Result<T, String> {
    match e {
        Encoded::Json(s) => {
            let mut de = serde_json::Deserializer::from_str(s);
            let v = T::deserialize(&mut de).map_err(|e| e.to_string())?;
            de.end().map_err(|e| e.to_string())?;
            Ok(v)
        }
        Encoded::Tokens(t, enc) => {
            let mut de = serde_assert::Deserializer::builder()
                .tokens(t.clone())
                .is_human_readable(enc.human_readable())
                .self_describing(false)
                .build();
            T::deserialize(&mut de).map_err(|e| e.to_string())
        }
    }
}

/// Implements the registry-independent part of `Reg` for a world type.
#[macro_export]
macro_rules! reg_world_ops {
    () => {
        fn new_world(res: [u32; 4]) -> Self::W {
            use vcommon::Resource;
            brood::World::with_resources(brood::resources!(
                vcommon::ResNum::<0>::make(res[0]),
                vcommon::ResStr::<1>::make(res[1]),
                vcommon::ResZst::<2>::make(res[2]),
                vcommon::ResWide::<3>::make(res[3])
            ))
        }
        fn remove(w: &mut Self::W, id: Id) {
            w.remove(id)
        }
        fn clear(w: &mut Self::W) {
            w.clear()
        }
        fn len(w: &Self::W) -> usize {
            w.len()
        }
        fn is_empty(w: &Self::W) -> bool {
            w.is_empty()
        }
        fn contains(w: &Self::W, id: Id) -> bool {
            w.contains(id)
        }
        fn has_entry(w: &mut Self::W, id: Id) -> bool {
            w.entry(id).is_some()
        }
        fn shrink_to_fit(w: &mut Self::W) {
            w.shrink_to_fit()
        }
        fn clone_world(w: &Self::W) -> Self::W {
            w.clone()
        }
        fn clone_from(dst: &mut Self::W, src: &Self::W) {
            dst.clone_from(src)
        }
        fn eq(a: &Self::W, b: &Self::W) -> bool {
            a == b
        }
        fn debug(w: &Self::W) -> String {
            format!("{:?}", w)
        }
        fn serialize(w: &Self::W, enc: Enc) -> Result<Encoded, String> {
            match enc {
                Enc::Json => $crate::reg::json_serialize(w),
                _ => $crate::reg::tok_serialize(w, enc),
            }
        }
        fn deserialize(e: &Encoded) -> Result<Self::W, String> {
            $crate::reg::any_deserialize(e)
        }
        fn dump(w: &Self::W) -> brood::verif::Dump {
            w.verif_dump()
        }
        fn res_snapshot(w: &Self::W) -> [Obs; 4] {
            use vcommon::Resource;
            [
                w.get::<vcommon::ResNum<0>, _>().obs(),
                w.get::<vcommon::ResStr<1>, _>().obs(),
                w.get::<vcommon::ResZst<2>, _>().obs(),
                w.get::<vcommon::ResWide<3>, _>().obs(),
            ]
        }
        fn res_set(w: &mut Self::W, which: usize, p: u32) {
            use vcommon::Resource;
            match which {
                0 => w.get_mut::<vcommon::ResNum<0>, _>().set(p),
                1 => w.get_mut::<vcommon::ResStr<1>, _>().set(p),
                2 => w.get_mut::<vcommon::ResZst<2>, _>().set(p),
                _ => w.get_mut::<vcommon::ResWide<3>, _>().set(p),
            }
        }
        fn res_norm(which: usize, p: u32) -> u32 {
            if which == 2 {
                0
            } else {
                p
            }
        }
    };
}
