//! Runs generated histories on worker threads (proptest `TestRunner` per worker), shrinks failures
//! and aggregates what was covered.

use crate::interp::{CaseStats, Exclusions, Fail, Interp};
use crate::ops::{history_strategy, Op, Profile};
use crate::reg::Reg;
use proptest::test_runner::{Config as PtConfig, RngSeed, TestCaseError, TestError, TestRunner};
use serde::{Deserialize, Serialize};
use std::collections::{BTreeMap, HashSet};
use std::hash::{Hash, Hasher};
use std::panic::{catch_unwind, AssertUnwindSafe};
use std::sync::atomic::{AtomicBool, Ordering};
use std::sync::{Arc, Mutex};
use vcommon::{ledger, talloc};

#[derive(Clone, Debug)]
pub struct Config {
    pub prop: String,
    pub thorough: bool,
    pub seed: u64,
    pub workers: usize,
    pub cases_per_worker: u32,
    pub excl: Exclusions,
    pub pool_digest: String,
    /// continue (for a few steps) after an observer oracle of another property fired
    pub mute: bool,
}

#[derive(Clone, Debug, Serialize, Deserialize)]
pub struct ReplayCase {
    pub property: String,
    pub engine: String,
    pub registry: String,
    pub pool_digest: String,
    pub seed: u64,
    pub case: Vec<Op>,
    #[serde(default)]
    pub failure: String,
    #[serde(default)]
    pub oracle: String,
}

#[derive(Clone, Debug)]
pub struct ReplayOutcome {
    pub failed: bool,
    pub message: String,
    pub oracle: String,
}

#[derive(Clone, Debug, Default)]
pub struct Report {
    pub registry: String,
    pub evaluations: u64,
    pub ops: u64,
    pub nontrivial: HashSet<u64>,
    pub classes: BTreeMap<String, u64>,
    pub samples: Vec<serde_json::Value>,
    pub failure: Option<ReplayCase>,
    pub foreign: BTreeMap<String, u64>,
    pub excluded: BTreeMap<String, u64>,
    pub wall_s: f64,
}

pub struct CaseOutcome {
    pub stats: CaseStats,
    pub fail: Option<Fail>,
    pub foreign: Option<Fail>,
}

thread_local! {
    static QUIET: std::cell::Cell<bool> = const { std::cell::Cell::new(false) };
}

pub fn install_quiet_panic_hook() {
    let default = std::panic::take_hook();
    std::panic::set_hook(Box::new(move |info| {
        if !QUIET.with(|q| q.get()) {
            default(info);
        }
    }));
}

pub fn set_quiet(q: bool) {
    QUIET.with(|c| c.set(q));
}

static CASE_COUNTER: std::sync::atomic::AtomicU64 = std::sync::atomic::AtomicU64::new(0);

/// Execute one history against registry `R` with the oracles of property `prop` deciding.
pub fn run_case<R: Reg>(ops: &[Op], prop: &str, excl: &Exclusions, slot: usize) -> CaseOutcome {
    run_case_opts::<R>(ops, prop, excl, slot, true)
}

pub fn run_case_opts<R: Reg>(ops: &[Op], prop: &str, excl: &Exclusions, slot: usize, mute: bool) -> CaseOutcome {
    let n = CASE_COUNTER.fetch_add(1, Ordering::Relaxed);
    ledger::reset((n % 1000 + 1) * 1_000_000);
    talloc::begin_case(slot);
    set_quiet(true);
    let mut interp = Interp::<R>::new(excl.clone());
    interp.prop = prop.to_string();
    interp.mute = mute;
    let mut fail: Option<Fail> = None;
    for op in ops {
        let r = catch_unwind(AssertUnwindSafe(|| interp.apply(op)));
        match r {
            Ok(Ok(())) => {}
            Ok(Err(f)) => {
                fail = Some(f);
                break;
            }
            Err(p) => {
                let msg = p.downcast_ref::<String>().cloned().or_else(|| p.downcast_ref::<&str>().map(|s| s.to_string())).unwrap_or_else(|| "panic".into());
                let props: &'static [&'static str] = match op {
                    Op::RoundTrip { .. } => &["C01", "C05", "C06"],
                    Op::CloneTo { .. } | Op::CloneFrom { .. } => &["C01", "C05", "C10"],
                    Op::Query { .. } | Op::EntryQuery { .. } | Op::EntriesQuery { .. } => &["C01", "C05", "C03"],
                    Op::ParQuery { .. } => &["C01", "C05", "C09"],
                    Op::EntryChain { .. } => &["C01", "C05", "C02"],
                    _ => &["C01", "C05", "C13"],
                };
                fail = Some(Fail { props, oracle: "panic", msg: format!("the library panicked during {}: {msg}", op.name()), step: interp.step });
                break;
            }
        }
    }
    let muted_foreign = interp.foreign.first().cloned();
    let had_foreign = muted_foreign.is_some();
    let (stats, fail, own) = if let Some(f) = fail {
        // The state may be corrupt: do not run destructors of the worlds.
        let own = interp.owns(&f);
        let stats = interp.stats.clone();
        std::mem::forget(interp);
        (stats, Some(f), own)
    } else if had_foreign {
        // Another property's observer fired earlier: the final drop checks are that property's too.
        let stats = interp.stats.clone();
        std::mem::forget(interp);
        (stats, None, false)
    } else {
        let prop_owned = interp.prop.clone();
        let clones = interp.stats.clones;
        let deser = interp.stats.deser_replaced;
        let r = catch_unwind(AssertUnwindSafe(|| interp.finish()));
        let owns_final = |f: &Fail| {
            f.props.contains(&prop_owned.as_str()) || ((prop_owned == "C10" && clones > 0) || (prop_owned == "C06" && deser > 0))
        };
        match r {
            Ok((stats, Ok(()))) => (stats, None, false),
            Ok((stats, Err(f))) => {
                let own = owns_final(&f);
                (stats, Some(f), own)
            }
            Err(_) => {
                let f = Fail { props: &["C04", "C05"], oracle: "panic-in-drop", msg: "panic while dropping the worlds".into(), step: ops.len() + 1 };
                let own = owns_final(&f);
                (CaseStats::default(), Some(f), own)
            }
        }
    };
    set_quiet(false);
    talloc::track_set(false);
    match fail {
        Some(f) if own => CaseOutcome { stats, fail: Some(f), foreign: muted_foreign },
        Some(f) => CaseOutcome { stats, fail: None, foreign: Some(muted_foreign.unwrap_or(f)) },
        None => CaseOutcome { stats, fail: None, foreign: muted_foreign },
    }
}

/// Deterministic sample of generated histories for the interpreter tier (Miri): the histories come
/// from the same strategy as the engine's, are run natively first, and only passing, non-trivial
/// ones of at most `max_ops` operations are kept. A pure function of the arguments.
pub fn sample_cases<R: Reg>(prop: &str, thorough: bool, seed: u64, n: usize, max_ops: usize) -> Vec<Vec<Op>> {
    use proptest::strategy::{Strategy, ValueTree};
    let profile = Profile::for_property(prop, thorough);
    let mut h = std::collections::hash_map::DefaultHasher::new();
    (seed, "sample", R::NAME, prop).hash(&mut h);
    let s = h.finish();
    let mut seed_bytes = [0u8; 32];
    for (i, b) in seed_bytes.iter_mut().enumerate() {
        *b = (s.rotate_left(i as u32 * 7) as u8) ^ (i as u8).wrapping_mul(37);
    }
    let mut runner = TestRunner::new_with_rng(
        PtConfig { failure_persistence: None, rng_seed: RngSeed::Fixed(s), ..PtConfig::default() },
        proptest::test_runner::TestRng::from_seed(proptest::test_runner::RngAlgorithm::ChaCha, &seed_bytes),
    );
    let strat = history_strategy(&profile);
    let excl = Exclusions::default();
    let mut out = Vec::new();
    let mut attempts = 0;
    while out.len() < n && attempts < n * 200 {
        attempts += 1;
        let Ok(tree) = strat.new_tree(&mut runner) else { continue };
        let ops = tree.current();
        if ops.len() > max_ops {
            continue;
        }
        let o = run_case_opts::<R>(&ops, prop, &excl, 0, true);
        if o.fail.is_none() && o.foreign.is_none() && nontrivial(prop, &o.stats) {
            out.push(ops);
        }
    }
    out
}

/// Run a history with every harness oracle switched off (the interpreter the binary runs under is
/// the oracle); the worlds are dropped at the end. Err = the library panicked.
pub fn run_light<R: Reg>(ops: &[Op]) -> Result<usize, String> {
    ledger::reset(1_000_000);
    set_quiet(true);
    let mut interp = Interp::<R>::new(Exclusions::default());
    interp.prop = "C05".to_string();
    interp.checks = false;
    for (i, op) in ops.iter().enumerate() {
        match catch_unwind(AssertUnwindSafe(|| interp.apply(op))) {
            Ok(Ok(())) => {}
            Ok(Err(f)) => {
                std::mem::forget(interp);
                return Err(format!("step {}: [{}] {}", i + 1, f.oracle, f.msg));
            }
            Err(p) => {
                let msg = p.downcast_ref::<String>().cloned().or_else(|| p.downcast_ref::<&str>().map(|s| s.to_string())).unwrap_or_else(|| "panic".into());
                std::mem::forget(interp);
                return Err(format!("step {}: the library panicked during {}: {msg}", i + 1, op.name()));
            }
        }
    }
    let n = interp.stats.ops_run;
    let slots = std::mem::take(&mut interp.slots);
    drop(slots);
    drop(interp);
    set_quiet(false);
    Ok(n)
}

/// The per-property rule deciding whether a case is non-trivial.
pub fn nontrivial(prop: &str, s: &CaseStats) -> bool {
    match prop {
        "C01" => s.shape_change_new + s.shape_change_existing >= 1 && s.remove_nonlast >= 1 && s.max_nonempty_archetypes >= 2,
        "C02" => s.slot_reused >= 1 && s.stale_probed_after_reuse >= 1,
        "C03" => s.q_nontrivial >= 1 || s.q_opt_both >= 1 || s.q_entry_absent_super >= 1,
        "C04" => (s.drop_paths.count_ones() >= 3) && s.heap_column,
        "C05" => s.reallocs >= 1 && (s.shrink_freed + s.adoption + s.archetype_deleted >= 1) && s.wide_or_zst_present,
        "C06" => s.rt_with_free_and_2arch >= 1 && s.lockstep_issuing_ops >= 1,
        "C09" => s.par_nontrivial >= 1,
        "C10" => (s.clone_dst_extra_arch + s.clone_src_empty_arch >= 1) && s.mutations_after_clone[0] >= 1 && s.mutations_after_clone[1] >= 1,
        "C13" => s.audits_after_change >= 1,
        "C15" => s.res_multi >= 1 && s.ops_run > s.res_writes as usize + 2,
        "C16" => s.eq_pairs_equal_snap >= 1 || s.eq_pairs_differ >= 1,
        _ => s.ops_run > 0,
    }
}

fn add_classes(classes: &mut BTreeMap<String, u64>, s: &CaseStats) {
    let mut add = |k: &str, v: u64| *classes.entry(k.to_string()).or_insert(0) += v;
    add("cases_with_shape_change_into_new_archetype", (s.shape_change_new > 0) as u64);
    add("cases_with_shape_change_into_existing_archetype", (s.shape_change_existing > 0) as u64);
    add("cases_with_removal_of_non_last_row", (s.remove_nonlast > 0) as u64);
    add("cases_with_2plus_nonempty_archetypes", (s.max_nonempty_archetypes >= 2) as u64);
    add("cases_with_slot_reuse", (s.slot_reused > 0) as u64);
    add("cases_with_stale_id_probed_after_slot_reuse", (s.stale_probed_after_reuse > 0) as u64);
    add("batches_smaller_than_free_list", s.batch_vs_free[0] as u64);
    add("batches_equal_to_free_list", s.batch_vs_free[1] as u64);
    add("batches_larger_than_free_list", s.batch_vs_free[2] as u64);
    add("cases_with_column_realloc", (s.reallocs > 0) as u64);
    add("cases_with_batch_adoption", (s.adoption > 0) as u64);
    add("cases_with_shrink_that_frees", (s.shrink_freed > 0) as u64);
    add("cases_with_archetype_deleted_by_shrink", (s.archetype_deleted > 0) as u64);
    add("round_trips", s.rt_total as u64);
    add("round_trips_with_free_list_and_2_archetypes", s.rt_with_free_and_2arch as u64);
    add("lockstep_identifier_issuing_ops", s.lockstep_issuing_ops as u64);
    add("clone_from_with_extra_destination_archetype", s.clone_dst_extra_arch as u64);
    add("clones_of_source_with_empty_archetype", s.clone_src_empty_arch as u64);
    add("audits", s.audits as u64);
    add("audits_after_free_list_or_table_change", s.audits_after_change as u64);
    add("resource_writes", s.res_writes as u64);
    add("multi_resource_views_out_of_list_order_with_write", s.res_multi as u64);
    add("eq_pairs_with_equal_contents", s.eq_pairs_equal_snap as u64);
    add("eq_pairs_with_different_contents", s.eq_pairs_differ as u64);
    add("eq_true", s.eq_true as u64);
    add("query_cases", s.q_cases as u64);
    add("query_cases_proper_subset", s.q_nontrivial as u64);
    add("query_optional_view_both_some_and_none", s.q_opt_both as u64);
    add("entries_subview_with_absent_super_view", s.q_entry_absent_super as u64);
    add("size_hints_checked", s.q_hints as u64);
    add("par_query_cases", s.par_cases as u64);
    add("par_query_cases_2plus_archetypes_long_multithreaded", s.par_nontrivial as u64);
    add("par_mutable_addresses_checked_distinct", s.par_mut_addresses);
    add("noop_ops", s.noops as u64);
    for (k, v) in &s.op_counts {
        add(&format!("op_{k}"), *v as u64);
    }
    for b in 0..8 {
        if s.drop_paths >> b & 1 == 1 {
            add(["drop_path_remove", "drop_path_overwrite", "drop_path_detach", "drop_path_clear", "drop_path_clone_from", "drop_path_world_drop", "drop_path_shrink_table", "drop_path_deserialized"][b], 1);
        }
    }
}

fn hash_ops(ops: &[Op]) -> u64 {
    let mut h = std::collections::hash_map::DefaultHasher::new();
    serde_json::to_string(ops).unwrap().hash(&mut h);
    h.finish()
}

pub fn run<R: Reg>(cfg: &Config) -> Report {
    let t0 = std::time::Instant::now();
    let profile = Profile::for_property(&cfg.prop, cfg.thorough);
    let report = Arc::new(Mutex::new(Report { registry: R::NAME.to_string(), ..Default::default() }));
    let stop = Arc::new(AtomicBool::new(false));
    std::thread::scope(|scope| {
        for wi in 0..cfg.workers {
            let report = report.clone();
            let stop = stop.clone();
            let profile = profile.clone();
            let cfg = cfg.clone();
            std::thread::Builder::new()
                .stack_size(64 << 20)
                .spawn_scoped(scope, move || {
                    let mut seed_bytes = [0u8; 32];
                    let mut h = std::collections::hash_map::DefaultHasher::new();
                    (cfg.seed, wi as u64, R::NAME, &cfg.prop).hash(&mut h);
                    let s = h.finish();
                    for (i, b) in seed_bytes.iter_mut().enumerate() {
                        *b = (s.rotate_left(i as u32 * 7) as u8) ^ (i as u8).wrapping_mul(37);
                    }
                    let mut runner = TestRunner::new_with_rng(
                        PtConfig { cases: cfg.cases_per_worker, failure_persistence: None, max_shrink_iters: 4000, rng_seed: RngSeed::Fixed(s), ..PtConfig::default() },
                        proptest::test_runner::TestRng::from_seed(proptest::test_runner::RngAlgorithm::ChaCha, &seed_bytes),
                    );
                    let strat = history_strategy(&profile);
                    let local_cell = std::cell::RefCell::new(Report::default());
                    let failed_cell = std::cell::Cell::new(false);
                    let last_fail_cell: std::cell::RefCell<Option<Fail>> = std::cell::RefCell::new(None);
                    let result = runner.run(&strat, |ops| {
                        let failed = failed_cell.get();
                        let mut local = local_cell.borrow_mut();
                        if stop.load(Ordering::Relaxed) && !failed {
                            return Ok(());
                        }
                        let text = serde_json::to_string(&ReplayCase { property: cfg.prop.clone(), engine: "engine".into(), registry: R::NAME.into(), pool_digest: cfg.pool_digest.clone(), seed: cfg.seed, case: ops.clone(), failure: "fatal signal while this case was running".into(), oracle: "crash".into() }).unwrap_or_default();
                        crate::crash::announce(wi, &text);
                        let out = run_case_opts::<R>(&ops, &cfg.prop, &cfg.excl, wi, cfg.mute);
                        crate::crash::clear(wi);
                        if !failed {
                            local.evaluations += 1;
                            local.ops += out.stats.ops_run as u64;
                            add_classes(&mut local.classes, &out.stats);
                            for (k, v) in &out.stats.excluded {
                                *local.excluded.entry(k.to_string()).or_insert(0) += *v as u64;
                            }
                            if let Some(f) = &out.foreign {
                                *local.foreign.entry(format!("{} ({})", f.oracle, f.props.join("/"))).or_insert(0) += 1;
                            }
                            if out.fail.is_none() && out.foreign.is_none() && nontrivial(&cfg.prop, &out.stats) {
                                if local.nontrivial.insert(hash_ops(&ops)) && (local.samples.len() < 3 || ops.len() < 10) && local.samples.len() < 6 {
                                    local.samples.push(serde_json::json!({"registry": R::NAME, "ops": ops}));
                                }
                            }
                        }
                        match out.fail {
                            Some(f) => {
                                failed_cell.set(true);
                                let msg = format!("[{}] step {}: {}", f.oracle, f.step, f.msg);
                                *last_fail_cell.borrow_mut() = Some(f);
                                Err(TestCaseError::fail(msg))
                            }
                            None => Ok(()),
                        }
                    });
                    let mut local = local_cell.into_inner();
                    let last_fail = last_fail_cell.into_inner();
                    if let Err(TestError::Fail(reason, ops)) = result {
                        stop.store(true, Ordering::Relaxed);
                        // re-run the shrunk case once to get its own message
                        let out = run_case_opts::<R>(&ops, &cfg.prop, &cfg.excl, wi, cfg.mute);
                        let (msg, oracle) = match out.fail {
                            Some(f) => (format!("step {}: {}", f.step, f.msg), f.oracle.to_string()),
                            None => (reason.to_string(), last_fail.map(|f| f.oracle.to_string()).unwrap_or_default()),
                        };
                        local.failure = Some(ReplayCase { property: cfg.prop.clone(), engine: "engine".into(), registry: R::NAME.into(), pool_digest: cfg.pool_digest.clone(), seed: cfg.seed, case: ops, failure: msg, oracle });
                    }
                    let mut r = report.lock().unwrap();
                    r.evaluations += local.evaluations;
                    r.ops += local.ops;
                    r.nontrivial.extend(local.nontrivial);
                    for (k, v) in local.classes {
                        *r.classes.entry(k).or_insert(0) += v;
                    }
                    for (k, v) in local.foreign {
                        *r.foreign.entry(k).or_insert(0) += v;
                    }
                    for (k, v) in local.excluded {
                        *r.excluded.entry(k).or_insert(0) += v;
                    }
                    if r.samples.len() < 4 {
                        r.samples.extend(local.samples.into_iter().take(2));
                    }
                    if let Some(f) = local.failure {
                        let better = r.failure.as_ref().map_or(true, |old| f.case.len() < old.case.len());
                        if better {
                            r.failure = Some(f);
                        }
                    }
                })
                .unwrap();
        }
    });
    let mut r = Arc::try_unwrap(report).ok().unwrap().into_inner().unwrap();
    r.wall_s = t0.elapsed().as_secs_f64();
    r
}

pub fn replay<R: Reg>(case: &ReplayCase) -> ReplayOutcome {
    let excl = Exclusions::default();
    let out = run_case::<R>(&case.case, &case.property, &excl, 0);
    match out.fail {
        Some(f) => ReplayOutcome { failed: true, message: format!("step {}: {}", f.step, f.msg), oracle: f.oracle.to_string() },
        None => ReplayOutcome { failed: false, message: out.foreign.map(|f| format!("only another property's oracle fired: [{}] {}", f.oracle, f.msg)).unwrap_or_default(), oracle: String::new() },
    }
}
