//! Model-based stateful engine.
//!
//!   engine run --prop C01 --tier quick --seed 1 --out report.json [--cases N] [--regs r6,r10]
//!   engine replay <file.json>
//!
//! Exit code: 0 = nothing found, 1 = a violation of the selected property (report has `failure`),
//! 2 = usage / infrastructure problem.

use std::collections::BTreeMap;
use vcommon::talloc::Tracking;
use vcore::interp::Exclusions;
use vcore::runner::{Config, ReplayCase, Report};

#[global_allocator]
static GLOBAL: Tracking = Tracking;

fn arg(args: &[String], name: &str) -> Option<String> {
    args.iter().position(|a| a == name).and_then(|i| args.get(i + 1).cloned())
}

macro_rules! registries {
    ($($name:literal => $krate:ident),* $(,)?) => {
        fn digest(reg: &str) -> &'static str {
            match reg { $($name => $krate::gen::POOL_DIGEST,)* _ => "" }
        }
        fn run_reg(reg: &str, cfg: &Config) -> Report {
            match reg { $($name => $krate::run(cfg),)* _ => panic!("unknown registry {reg}") }
        }
        fn replay_reg(case: &ReplayCase) -> Option<vcore::runner::ReplayOutcome> {
            match case.registry.as_str() { $($name => Some($krate::replay(case)),)* _ => None }
        }
        fn run_deser_reg(reg: &str, cfg: &Config) -> vcore::deser::DeserReport {
            match reg { $($name => $krate::run_deser(cfg),)* _ => panic!("unknown registry {reg}") }
        }
        fn replay_deser_reg(case: &vcore::deser::DeserReplay) -> Option<Option<String>> {
            match case.registry.as_str() { $($name => Some($krate::replay_deser(case)),)* _ => None }
        }
        fn run_fault_reg(reg: &str, cfg: &Config, known: &[String]) -> vcore::fault::FaultReport {
            match reg { $($name => $krate::run_fault(cfg, known),)* _ => panic!("unknown registry {reg}") }
        }
        fn replay_fault_reg(case: &vcore::fault::FaultReplay) -> Option<Option<String>> {
            match case.registry.as_str() { $($name => Some($krate::replay_fault(case)),)* _ => None }
        }
    };
}
registries! {
    "r0" => reg_r0, "r1" => reg_r1, "r6" => reg_r6, "r8" => reg_r8, "r9" => reg_r9, "r10" => reg_r10,
    "p1" => reg_p1, "p6a" => reg_p6a, "p6b" => reg_p6b, "p6c" => reg_p6c, "p10" => reg_p10,
    "t6" => reg_t6, "t10" => reg_t10,
}

fn main() {
    let args: Vec<String> = std::env::args().collect();
    vcore::runner::install_quiet_panic_hook();
    match args.get(1).map(|s| s.as_str()) {
        Some("run") => {
            let prop = arg(&args, "--prop").expect("--prop");
            let tier = arg(&args, "--tier").unwrap_or_else(|| "quick".into());
            let thorough = tier == "thorough";
            let seed: u64 = arg(&args, "--seed").and_then(|s| s.parse().ok()).unwrap_or(0);
            let out = arg(&args, "--out").expect("--out");
            let workers: usize = arg(&args, "--workers").and_then(|s| s.parse().ok()).unwrap_or(16);
            let cases: u32 = arg(&args, "--cases").and_then(|s| s.parse().ok()).unwrap_or(if thorough { 8000 } else { 300 });
            let regs = arg(&args, "--regs").unwrap_or_else(|| if prop == "C09" { "p6a,p6b,p6c,p10,p1".into() } else if prop == "C05" { if thorough { "r6,r10,r8,r9,r1,r0,t6,t10,p6a,p10".into() } else { "r6,r10,r8,r9,r1,r0,p6a,p10".into() } } else if thorough { "r6,r10,r8,r9,r1,r0,t6,t10".into() } else { "r6,r10,r8,r9,r1,r0".into() });
            let excl_arg = arg(&args, "--exclude").unwrap_or_default();
            let mute = !args.iter().any(|a| a == "--no-mute");
            vcore::crash::install(&format!("{out}.crash.json"));
            let excl = Exclusions {
                extend_smaller_than_free: excl_arg.contains("extend_smaller_than_free"),
                clear_with_shadow: excl_arg.contains("clear_with_shadow"),
                entry_remove_leak: excl_arg.contains("entry_remove_leak"),
                deser_leak_known: Vec::new(),
            };
            // share of the case budget per registry
            let share: BTreeMap<&str, f64> = [("r6", 1.0), ("r10", 0.4), ("r8", 0.3), ("r9", 0.3), ("r1", 0.15), ("r0", 0.05), ("p6a", 0.4), ("p6b", 0.4), ("p6c", 0.4), ("p10", 0.3), ("p1", 0.1), ("t6", 0.5), ("t10", 0.3)].into_iter().collect();
            let mut reports = Vec::new();
            let t0 = std::time::Instant::now();
            let mut failure: Option<ReplayCase> = None;
            for reg in regs.split(',') {
                let cfg = Config {
                    prop: prop.clone(),
                    thorough,
                    seed,
                    workers,
                    cases_per_worker: ((cases as f64 * share.get(reg).copied().unwrap_or(0.2)).ceil() as u32).max(1),
                    excl: excl.clone(),
                    pool_digest: digest(reg).to_string(),
                    mute,
                };
                let r = run_reg(reg, &cfg);
                if let Some(f) = &r.failure {
                    if failure.is_none() {
                        failure = Some(f.clone());
                    }
                }
                let stop = r.failure.is_some();
                reports.push(r);
                if stop {
                    break;
                }
            }
            let mut classes: BTreeMap<String, u64> = BTreeMap::new();
            let mut foreign: BTreeMap<String, u64> = BTreeMap::new();
            let mut excluded: BTreeMap<String, u64> = BTreeMap::new();
            let mut per_reg = serde_json::Map::new();
            let (mut evaluations, mut nontrivial, mut ops) = (0u64, 0u64, 0u64);
            let mut samples = Vec::new();
            for r in &reports {
                evaluations += r.evaluations;
                nontrivial += r.nontrivial.len() as u64;
                ops += r.ops;
                for (k, v) in &r.classes {
                    *classes.entry(k.clone()).or_insert(0) += v;
                }
                for (k, v) in &r.foreign {
                    *foreign.entry(k.clone()).or_insert(0) += v;
                }
                for (k, v) in &r.excluded {
                    *excluded.entry(k.clone()).or_insert(0) += v;
                }
                per_reg.insert(r.registry.clone(), serde_json::json!({"evaluations": r.evaluations, "distinct_nontrivial": r.nontrivial.len(), "wall_s": r.wall_s, "pool_digest": digest(&r.registry)}));
                samples.extend(r.samples.iter().take(2).cloned());
            }
            let report = serde_json::json!({
                "property": prop,
                "tier": tier,
                "seed": seed,
                "evaluations": evaluations,
                "distinct_nontrivial": nontrivial,
                "operations": ops,
                "classes": classes,
                "other_oracles_fired": foreign,
                "excluded_by_construction": excluded,
                "registries": per_reg,
                "samples": samples,
                "failure": failure,
                "wall_s": t0.elapsed().as_secs_f64(),
            });
            std::fs::write(&out, serde_json::to_string_pretty(&report).unwrap()).expect("write report");
            std::process::exit(if failure.is_some() { 1 } else { 0 });
        }
        Some("deser") => {
            let tier = arg(&args, "--tier").unwrap_or_else(|| "quick".into());
            let thorough = tier == "thorough";
            let seed: u64 = arg(&args, "--seed").and_then(|s| s.parse().ok()).unwrap_or(0);
            let out = arg(&args, "--out").expect("--out");
            let workers: usize = arg(&args, "--workers").and_then(|s| s.parse().ok()).unwrap_or(16);
            let cases: u32 = arg(&args, "--cases").and_then(|s| s.parse().ok()).unwrap_or(500);
            let regs = arg(&args, "--regs").unwrap_or_else(|| "r6,r10,r8,r9,r1".into());
            let dprop = arg(&args, "--prop").unwrap_or_else(|| "C11".into());
            let leak_known: Vec<String> = arg(&args, "--known-leaks").map(|s| s.split('|').filter(|x| !x.is_empty()).map(|x| x.to_string()).collect()).unwrap_or_default();
            vcore::crash::install(&format!("{out}.crash.json"));
            let share: BTreeMap<&str, f64> = [("r6", 1.0), ("r10", 0.5), ("r8", 0.4), ("r9", 0.4), ("r1", 0.1)].into_iter().collect();
            let t0 = std::time::Instant::now();
            let mut reports = Vec::new();
            for reg in regs.split(',') {
                let cfg = Config { prop: dprop.clone(), thorough, seed, workers, cases_per_worker: ((cases as f64 * share.get(reg).copied().unwrap_or(0.2)).ceil() as u32).max(1), excl: Exclusions { deser_leak_known: leak_known.clone(), ..Exclusions::default() }, pool_digest: digest(reg).to_string(), mute: false };
                let r = run_deser_reg(reg, &cfg);
                let stop = r.failure.is_some();
                reports.push(r);
                if stop {
                    break;
                }
            }
            let mut classes: BTreeMap<String, u64> = BTreeMap::new();
            let (mut evaluations, mut nontrivial) = (0u64, 0u64);
            let mut samples = Vec::new();
            let mut per_reg = serde_json::Map::new();
            let mut failure = None;
            for r in &reports {
                evaluations += r.evaluations;
                nontrivial += r.nontrivial.len() as u64;
                for (k, v) in &r.classes {
                    *classes.entry(k.clone()).or_insert(0) += v;
                }
                samples.extend(r.samples.iter().take(1).cloned());
                per_reg.insert(r.registry.clone(), serde_json::json!({"evaluations": r.evaluations, "distinct_nontrivial": r.nontrivial.len(), "wall_s": r.wall_s, "pool_digest": digest(&r.registry)}));
                if failure.is_none() {
                    failure = r.failure.clone();
                }
            }
            let report = serde_json::json!({"property": dprop, "tier": tier, "seed": seed, "evaluations": evaluations, "distinct_nontrivial": nontrivial, "classes": classes, "registries": per_reg, "samples": samples, "failure": failure, "wall_s": t0.elapsed().as_secs_f64()});
            std::fs::write(&out, serde_json::to_string_pretty(&report).unwrap()).expect("write report");
            std::process::exit(if failure.is_some() { 1 } else { 0 });
        }
        Some("fault") => {
            let tier = arg(&args, "--tier").unwrap_or_else(|| "quick".into());
            let thorough = tier == "thorough";
            let seed: u64 = arg(&args, "--seed").and_then(|s| s.parse().ok()).unwrap_or(0);
            let out = arg(&args, "--out").expect("--out");
            let workers: usize = arg(&args, "--workers").and_then(|s| s.parse().ok()).unwrap_or(16);
            let cases: u32 = arg(&args, "--cases").and_then(|s| s.parse().ok()).unwrap_or(100);
            let regs = arg(&args, "--regs").unwrap_or_else(|| "r6,r10,r1".into());
            let known: Vec<String> = arg(&args, "--known").map(|s| s.split(',').filter(|x| !x.is_empty()).map(|x| x.to_string()).collect()).unwrap_or_default();
            vcore::crash::install(&format!("{out}.crash.json"));
            let share: BTreeMap<&str, f64> = [("r6", 1.0), ("r10", 0.3), ("r8", 0.3), ("r1", 0.1)].into_iter().collect();
            let t0 = std::time::Instant::now();
            let mut reports = Vec::new();
            for reg in regs.split(',') {
                let cfg = Config { prop: "C17".into(), thorough, seed, workers, cases_per_worker: ((cases as f64 * share.get(reg).copied().unwrap_or(0.2)).ceil() as u32).max(1), excl: Exclusions::default(), pool_digest: digest(reg).to_string(), mute: false };
                let r = run_fault_reg(reg, &cfg, &known);
                let stop = r.failure.is_some();
                reports.push(r);
                if stop {
                    break;
                }
            }
            let mut classes: BTreeMap<String, u64> = BTreeMap::new();
            let mut excluded: BTreeMap<String, u64> = BTreeMap::new();
            let (mut cases_run, mut injections, mut fired, mut nontrivial) = (0u64, 0u64, 0u64, 0u64);
            let mut samples = Vec::new();
            let mut failure = None;
            for r in &reports {
                cases_run += r.cases;
                injections += r.injections;
                fired += r.fired;
                nontrivial += r.nontrivial.len() as u64;
                for (k, v) in &r.classes {
                    *classes.entry(k.clone()).or_insert(0) += v;
                }
                for (k, v) in &r.excluded {
                    *excluded.entry(k.clone()).or_insert(0) += v;
                }
                samples.extend(r.samples.iter().take(1).cloned());
                if failure.is_none() {
                    failure = r.failure.clone();
                }
            }
            let report = serde_json::json!({"property": "C17", "tier": tier, "seed": seed, "cases": cases_run, "injections": injections, "fired": fired, "distinct_nontrivial": nontrivial, "classes": classes, "excluded_by_construction": excluded, "samples": samples, "failure": failure, "wall_s": t0.elapsed().as_secs_f64()});
            std::fs::write(&out, serde_json::to_string_pretty(&report).unwrap()).expect("write report");
            std::process::exit(if failure.is_some() { 1 } else { 0 });
        }
        Some("replay-fault") => {
            let path = args.get(2).expect("file");
            let case: vcore::fault::FaultReplay = serde_json::from_str(&std::fs::read_to_string(path).expect("read")).expect("parse replay file");
            let Some(out) = replay_fault_reg(&case) else { std::process::exit(2) };
            match out {
                Some(m) => {
                    println!("REPRODUCED property=C17 {}", m);
                    std::process::exit(1);
                }
                None => {
                    println!("not reproduced");
                    std::process::exit(0);
                }
            }
        }
        Some("replay-deser") => {
            let path = args.get(2).expect("file");
            let case: vcore::deser::DeserReplay = serde_json::from_str(&std::fs::read_to_string(path).expect("read")).expect("parse replay file");
            let Some(out) = replay_deser_reg(&case) else { std::process::exit(2) };
            match out {
                Some(m) => {
                    println!("REPRODUCED property={} {}", case.property, m);
                    std::process::exit(1);
                }
                None => {
                    println!("not reproduced");
                    std::process::exit(0);
                }
            }
        }
        Some("sample") => {
            // engine sample --prop C05 --seed 1 --n 64 --max-ops 24 --out cases.json   (registries r6 and r1)
            let prop = arg(&args, "--prop").expect("--prop");
            let seed: u64 = arg(&args, "--seed").and_then(|s| s.parse().ok()).unwrap_or(0);
            let n: usize = arg(&args, "--n").and_then(|s| s.parse().ok()).unwrap_or(64);
            let max_ops: usize = arg(&args, "--max-ops").and_then(|s| s.parse().ok()).unwrap_or(24);
            let out = arg(&args, "--out").expect("--out");
            let mut cases: Vec<(String, Vec<vcore::ops::Op>)> = Vec::new();
            let n1 = (n / 8).max(1);
            for ops in vcore::runner::sample_cases::<reg_r6::gen::Rg>(&prop, false, seed, n - n1, max_ops) {
                cases.push(("r6".into(), ops));
            }
            for ops in vcore::runner::sample_cases::<reg_r1::gen::Rg>("C13", false, seed, n1, max_ops) {
                cases.push(("r1".into(), ops));
            }
            std::fs::write(&out, serde_json::to_string(&cases).unwrap()).expect("write cases");
            println!("sampled {} cases", cases.len());
        }
        Some("sample-deser") => {
            // engine sample-deser --seed 1 --n 48 --out cases.json   (registry r6)
            let seed: u64 = arg(&args, "--seed").and_then(|s| s.parse().ok()).unwrap_or(0);
            let n: usize = arg(&args, "--n").and_then(|s| s.parse().ok()).unwrap_or(48);
            let out = arg(&args, "--out").expect("--out");
            let cases: Vec<(String, vcore::deser::DeserCase)> = vcore::deser::sample_deser_cases::<reg_r6::gen::Rg>(seed, n).into_iter().map(|c| ("r6".to_string(), c)).collect();
            std::fs::write(&out, serde_json::to_string(&cases).unwrap()).expect("write cases");
            println!("sampled {} cases", cases.len());
        }
        Some("replay") => {
            let path = args.get(2).expect("file");
            let case: ReplayCase = serde_json::from_str(&std::fs::read_to_string(path).expect("read")).expect("parse replay file");
            if !case.pool_digest.is_empty() && case.pool_digest != digest(&case.registry) {
                eprintln!("replay file was recorded against type pool {} but this build has {}", case.pool_digest, digest(&case.registry));
                std::process::exit(2);
            }
            vcore::crash::install(&format!("{path}.crash.json"));
            let Some(out) = replay_reg(&case) else { std::process::exit(2) };
            let _ = std::fs::remove_file(format!("{path}.crash.json"));
            if out.failed {
                println!("REPRODUCED property={} oracle={} {}", case.property, out.oracle, out.message);
                std::process::exit(1);
            }
            println!("not reproduced {}", out.message);
            std::process::exit(0);
        }
        _ => {
            eprintln!("usage: engine run --prop Cxx --tier quick|thorough --seed N --out file | engine replay file");
            std::process::exit(2);
        }
    }
}
