//! libFuzzer / AddressSanitizer front end of the C11 check: the input bytes decode into
//! (base history, encoding, edit script, follow-up history); see vcore::deser for the oracle.
#![no_main]
use arbitrary::Unstructured;
use libfuzzer_sys::fuzz_target;
use vcore::deser::{DeserCase, Edit};
use vcore::ops::{NSel, Op};
use vcore::reg::ENCS;

fn small_ops(u: &mut Unstructured, max: usize) -> arbitrary::Result<Vec<Op>> {
    let n = u.int_in_range(0..=max)?;
    let mut ops = Vec::new();
    for _ in 0..n {
        let w = 0u8;
        ops.push(match u.int_in_range(0..=6)? {
            0 | 1 => Op::Insert { w, shape: u.arbitrary()?, order: u.int_in_range(0..=2)?, p: u.arbitrary()? },
            2 => Op::Extend { w, shape: u.arbitrary()?, order: 0, mode: 0, n: NSel::Exact(u.int_in_range(0..=6)?), p: u.arbitrary()? },
            3 => Op::Remove { w, t: u.arbitrary()? },
            4 => Op::EntryAdd { w, t: u.arbitrary()?, comp: u.arbitrary()?, p: u.arbitrary()? },
            5 => Op::EntryRemove { w, t: u.arbitrary()?, comp: u.arbitrary()? },
            _ => Op::Shrink { w },
        });
    }
    Ok(ops)
}

fuzz_target!(|data: &[u8]| {
    // libfuzzer-sys aborts on every panic through its panic hook; panics the library documents
    // (Batch::new on ragged columns) are expected and caught inside the case runner, so the hook is
    // wrapped: silent while a case runs, libFuzzer's own (report + abort) otherwise.
    static HOOK: std::sync::Once = std::sync::Once::new();
    HOOK.call_once(vcore::runner::install_quiet_panic_hook);
    let mut u = Unstructured::new(data);
    let case = (|| -> arbitrary::Result<DeserCase> {
        let base = small_ops(&mut u, 10)?;
        let enc = *u.choose(&ENCS)?;
        let ne = u.int_in_range(1..=4)?;
        let mut edits = Vec::new();
        for _ in 0..ne {
            edits.push(Edit { kind: u.arbitrary()?, a: u.arbitrary()?, b: u.arbitrary()?, v: u.arbitrary()? });
        }
        let follow = small_ops(&mut u, 12)?;
        let boost = if u.ratio(1u8, 8u8)? { Some((u.arbitrary()?, u.int_in_range(0..=1)?)) } else { None };
        Ok(DeserCase { base, enc, edits, follow, boost })
    })();
    let Ok(case) = case else { return };
    let out = vcore::deser::run_deser_case::<reg_r6::gen::Rg>(&case, "C11", 0);
    if let Some(f) = out.fail {
        panic!("oracle [{}] failed: {}\ncase = {}", f.oracle, f.msg, serde_json::to_string(&case).unwrap());
    }
});
