//! libFuzzer / AddressSanitizer front end of the history interpreter (C05 thorough tier, also C01
//! C02 C03 C04 C13): the input bytes are decoded into an operation list (or parsed as the JSON of
//! a saved replay when they start with `[`), executed against registry r6 (r10 when the first
//! byte is odd) with every engine oracle on; any oracle failure panics, memory errors are
//! AddressSanitizer's business. No global state survives an iteration: the ledger and the world
//! slots are rebuilt per case.
#![no_main]
use arbitrary::Unstructured;
use libfuzzer_sys::fuzz_target;
use vcore::ops::{NSel, Op, RtMode};
use vcore::reg::{Enc, PTerm, QMode, ENCS, PTERMS};

fn decode(u: &mut Unstructured) -> arbitrary::Result<Vec<Op>> {
    let n = u.int_in_range(0..=48)?;
    let mut ops = Vec::new();
    for _ in 0..n {
        let w = *u.choose(&[0u8, 0, 0, 1, 2])?;
        let op = match u.int_in_range(0..=22)? {
            0 | 1 => Op::Insert { w, shape: u.arbitrary()?, order: u.int_in_range(0..=2)?, p: u.arbitrary()? },
            2 | 3 => Op::Extend {
                w,
                shape: u.arbitrary()?,
                order: u.int_in_range(0..=2)?,
                mode: u.int_in_range(0..=2)?,
                n: match u.int_in_range(0..=4)? {
                    0 => NSel::FreeMinus1,
                    1 => NSel::Free,
                    2 => NSel::FreePlus1,
                    _ => NSel::Exact(u.int_in_range(0..=40)?),
                },
                p: u.arbitrary()?,
            },
            4 | 5 => Op::Remove { w, t: u.arbitrary()? },
            6 => Op::RemoveStale { w, t: u.arbitrary()? },
            7 => Op::Clear { w },
            8 | 9 => Op::EntryAdd { w, t: u.arbitrary()?, comp: u.arbitrary()?, p: u.arbitrary()? },
            10 => Op::EntryRemove { w, t: u.arbitrary()?, comp: u.arbitrary()? },
            11 => Op::Query {
                w,
                q: u.arbitrary()?,
                mode: match u.int_in_range(0..=3)? {
                    0 => QMode::Next,
                    1 => QMode::Fold,
                    2 => QMode::System,
                    _ => QMode::Mixed(u.int_in_range(0..=5)?),
                },
                salt: u.arbitrary()?,
            },
            12 => Op::EntryQuery { w, t: u.arbitrary()?, q: u.arbitrary()?, salt: u.arbitrary()? },
            13 => Op::EntriesQuery { w, e: u.arbitrary()?, ts: vec![u.arbitrary()?, u.arbitrary()?], salt: u.arbitrary()?, interleave: u.arbitrary()? },
            20 => Op::EntryChain { w, t: u.arbitrary()?, steps: vec![(u.int_in_range(0..=2)?, u.arbitrary()?, u.arbitrary()?), (u.int_in_range(0..=2)?, u.arbitrary()?, u.arbitrary()?), (2, 0, 0)] },
            21 => Op::ExtendRagged { w, shape: u.arbitrary()?, lens: vec![u.int_in_range(0..=3)?, u.int_in_range(0..=3)?, u.int_in_range(0..=3)?], p: u.arbitrary()? },
            14 => Op::Reserve { w, shape: u.arbitrary()?, n: u.int_in_range(0..=300)? },
            15 => Op::Shrink { w },
            16 => Op::CloneTo { src: u.int_in_range(0..=2)?, dst: u.int_in_range(0..=2)? },
            17 => Op::CloneFrom { dst: u.int_in_range(0..=2)?, src: u.int_in_range(0..=2)? },
            18 => Op::RoundTrip { w, enc: *u.choose(&ENCS)?, mode: *u.choose(&[RtMode::Check, RtMode::Shadow, RtMode::Replace, RtMode::Chain])? },
            _ => Op::ResView { w, rv: u.arbitrary()?, path: u.int_in_range(0..=2)?, salt: u.arbitrary()? },
        };
        ops.push(op);
    }
    let _ = (PTERMS, PTerm::Any, Enc::Json);
    Ok(ops)
}

fuzz_target!(|data: &[u8]| {
    // libfuzzer-sys aborts on every panic through its panic hook; panics the library documents
    // (Batch::new on ragged columns) are expected and caught inside the case runner, so the hook is
    // wrapped: silent while a case runs, libFuzzer's own (report + abort) otherwise.
    static HOOK: std::sync::Once = std::sync::Once::new();
    HOOK.call_once(vcore::runner::install_quiet_panic_hook);
    if data.is_empty() {
        return;
    }
    let ops: Vec<Op> = if data[0] == b'[' {
        match serde_json::from_slice(data) {
            Ok(o) => o,
            Err(_) => return,
        }
    } else {
        let mut u = Unstructured::new(&data[1..]);
        match decode(&mut u) {
            Ok(o) => o,
            Err(_) => return,
        }
    };
    // every engine oracle decides ("FUZZ" owns all properties)
    let out = if data[0] % 2 == 0 { vcore::runner::run_case::<reg_r6::gen::Rg>(&ops, "FUZZ", &Default::default(), 0) } else { vcore::runner::run_case::<reg_r10::gen::Rg>(&ops, "FUZZ", &Default::default(), 0) };
    if let Some(f) = out.fail.or(out.foreign) {
        // strict: any oracle failure is a finding of this target
        panic!("oracle [{}] ({}) failed at step {}: {}\nops = {}", f.oracle, f.props.join("/"), f.step, f.msg, serde_json::to_string(&ops).unwrap());
    }
});
