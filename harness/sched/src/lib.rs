//! Shared infrastructure of the schedule checks (C07, C08, C12): components, recording views,
//! the deterministic fork/join driver, world construction, comparison and the proptest runner.

use brood::{entity, query::Views, resources, Query, Registry, Resources, World};
use proptest::prelude::*;
use proptest::test_runner::{Config as PtConfig, RngSeed, TestCaseError, TestError, TestRunner};
use serde::{Deserialize, Serialize};
use std::cell::{Cell, RefCell};
use std::collections::{BTreeMap, HashSet};
use std::sync::atomic::{AtomicU64, Ordering};
use std::sync::Mutex;

pub type Id = brood::entity::Identifier;

macro_rules! val {
    ($($n:ident),*) => {$(
        #[derive(Debug, Clone, PartialEq)]
        pub struct $n(pub u64);
        impl Val for $n {
            fn get(&self) -> u64 { self.0 }
            fn set(&mut self, v: u64) { self.0 = v }
        }
    )*};
}
pub trait Val: Send + Sync + 'static {
    fn get(&self) -> u64;
    fn set(&mut self, v: u64);
}
val!(A, B, C, D, RA, RB, RC);

pub type Reg = Registry!(A, B, C, D);
pub type Res = Resources!(RA, RB, RC);
pub type W = World<Reg, Res>;

/// Input of one case: the world content.
#[derive(Clone, Debug, Serialize, Deserialize, PartialEq)]
pub struct WorldSpec {
    pub ents: Vec<(u8, [u64; 4])>,
    pub res: [u64; 3],
}

pub fn build_world(spec: &WorldSpec) -> (W, Vec<Id>) {
    let mut w = W::with_resources(resources!(RA(spec.res[0]), RB(spec.res[1]), RC(spec.res[2])));
    let mut ids = Vec::new();
    for (mask, v) in &spec.ents {
        let (a, b, c, d) = (A(v[0]), B(v[1]), C(v[2]), D(v[3]));
        let id = match mask & 15 {
            0 => w.insert(entity!()),
            1 => w.insert(entity!(a)),
            2 => w.insert(entity!(b)),
            3 => w.insert(entity!(a, b)),
            4 => w.insert(entity!(c)),
            5 => w.insert(entity!(a, c)),
            6 => w.insert(entity!(b, c)),
            7 => w.insert(entity!(a, b, c)),
            8 => w.insert(entity!(d)),
            9 => w.insert(entity!(a, d)),
            10 => w.insert(entity!(b, d)),
            11 => w.insert(entity!(a, b, d)),
            12 => w.insert(entity!(c, d)),
            13 => w.insert(entity!(a, c, d)),
            14 => w.insert(entity!(b, c, d)),
            _ => w.insert(entity!(a, b, c, d)),
        };
        ids.push(id);
    }
    (w, ids)
}

/// (id, [A,B,C,D]) for every entity, sorted, plus the resources.
pub fn world_state(w: &mut W) -> (Vec<(String, [Option<u64>; 4])>, [u64; 3]) {
    let mut rows = Vec::new();
    for brood::query::result!(id, a, b, c, d) in w.query(Query::<Views!(entity::Identifier, Option<&A>, Option<&B>, Option<&C>, Option<&D>)>::new()).iter {
        rows.push((format!("{id:?}"), [a.map(|x| x.0), b.map(|x| x.0), c.map(|x| x.0), d.map(|x| x.0)]));
    }
    rows.sort();
    let res = [w.get::<RA, _>().0, w.get::<RB, _>().0, w.get::<RC, _>().0];
    (rows, res)
}

// -------------------------------------------------------------------------------------------------
// recording
// -------------------------------------------------------------------------------------------------

#[derive(Clone, Debug, Default, PartialEq)]
pub struct TaskState {
    pub tag: u64,
    pub acc: u64,
    /// the share of `acc` that came from reading resources
    pub res_acc: u64,
    pub runs: u32,
    pub matched: u32,
    /// position in the fork/join tree when the task ran: (fork number, side) pairs
    pub path: Vec<(u32, u8)>,
    /// (address, write) of everything the task could reach
    pub accesses: Vec<(usize, bool)>,
}

/// One-shot panic fuse for system bodies (C17, schedule part): every view a body touches ticks it.
pub static FUSE: std::sync::atomic::AtomicI64 = std::sync::atomic::AtomicI64::new(-1);
pub static TICKS: AtomicU64 = AtomicU64::new(0);
pub static FIRED: std::sync::atomic::AtomicBool = std::sync::atomic::AtomicBool::new(false);

#[derive(Debug)]
pub struct SchedFuse;

fn fuse_tick() {
    TICKS.fetch_add(1, Ordering::Relaxed);
    if FUSE.load(Ordering::Relaxed) >= 0 && FUSE.fetch_sub(1, Ordering::SeqCst) == 0 {
        FIRED.store(true, Ordering::SeqCst);
        std::panic::panic_any(SchedFuse);
    }
}

fn h(x: u64) -> u64 {
    let mut z = x.wrapping_add(0x9E37_79B9_7F4A_7C15);
    z = (z ^ (z >> 30)).wrapping_mul(0xBF58_476D_1CE4_E5B9);
    z = (z ^ (z >> 27)).wrapping_mul(0x94D0_49BB_1331_11EB);
    z ^ (z >> 31)
}

pub fn upd(v: u64, tag: u64) -> u64 {
    v.wrapping_mul(31).wrapping_add(tag)
}

/// Sequential recording (System bodies).
pub trait Touch {
    fn touch(self, st: &mut TaskState, salt: u64);
}
impl<'a, X: Val> Touch for &'a X {
    fn touch(self, st: &mut TaskState, salt: u64) {
        fuse_tick();
        st.accesses.push((self as *const X as usize, false));
        st.acc = st.acc.wrapping_add(h(self.get() ^ salt));
    }
}
impl<'a, X: Val> Touch for &'a mut X {
    fn touch(self, st: &mut TaskState, _salt: u64) {
        fuse_tick();
        st.accesses.push((self as *const X as usize, true));
        let v = upd(self.get(), st.tag);
        self.set(v);
    }
}
impl<'a, X: Val> Touch for Option<&'a X> {
    fn touch(self, st: &mut TaskState, salt: u64) {
        match self {
            Some(x) => x.touch(st, salt),
            None => st.acc = st.acc.wrapping_add(h(salt ^ 0xabcd)),
        }
    }
}
impl<'a, X: Val> Touch for Option<&'a mut X> {
    fn touch(self, st: &mut TaskState, salt: u64) {
        match self {
            Some(x) => x.touch(st, salt),
            None => st.acc = st.acc.wrapping_add(h(salt ^ 0xabcd)),
        }
    }
}

/// Parallel recording (ParSystem bodies).
#[derive(Default)]
pub struct ParRec {
    pub tag: u64,
    pub acc: AtomicU64,
    pub matched: AtomicU64,
    pub accesses: Mutex<Vec<(usize, bool)>>,
}
pub trait TouchPar {
    fn touch_par(self, rec: &ParRec, salt: u64);
}
impl<'a, X: Val> TouchPar for &'a X {
    fn touch_par(self, rec: &ParRec, salt: u64) {
        fuse_tick();
        rec.accesses.lock().unwrap().push((self as *const X as usize, false));
        rec.acc.fetch_add(h(self.get() ^ salt), Ordering::Relaxed);
    }
}
impl<'a, X: Val> TouchPar for &'a mut X {
    fn touch_par(self, rec: &ParRec, _salt: u64) {
        fuse_tick();
        rec.accesses.lock().unwrap().push((self as *const X as usize, true));
        let v = upd(self.get(), rec.tag);
        self.set(v);
    }
}
impl<'a, X: Val> TouchPar for Option<&'a X> {
    fn touch_par(self, rec: &ParRec, salt: u64) {
        match self {
            Some(x) => x.touch_par(rec, salt),
            None => {
                rec.acc.fetch_add(h(salt ^ 0xabcd), Ordering::Relaxed);
            }
        }
    }
}
impl<'a, X: Val> TouchPar for Option<&'a mut X> {
    fn touch_par(self, rec: &ParRec, salt: u64) {
        match self {
            Some(x) => x.touch_par(rec, salt),
            None => {
                rec.acc.fetch_add(h(salt ^ 0xabcd), Ordering::Relaxed);
            }
        }
    }
}

pub fn id_salt(id: Id) -> u64 {
    use std::hash::{Hash, Hasher};
    let mut s = std::collections::hash_map::DefaultHasher::new();
    id.hash(&mut s);
    s.finish()
}

// -------------------------------------------------------------------------------------------------
// deterministic fork/join driver
// -------------------------------------------------------------------------------------------------

thread_local! {
    static PATH: RefCell<Vec<(u32, u8)>> = const { RefCell::new(Vec::new()) };
}

pub fn current_path() -> Vec<(u32, u8)> {
    PATH.with(|p| p.borrow().clone())
}

/// Runs the two closures of every fork sequentially, in the order given by one bit per fork
/// (bit set = the task first, then the continuation; clear = the continuation first).
pub struct Driver {
    pub bits: u32,
    pub counter: Cell<u32>,
}

impl Driver {
    pub fn new(bits: u32) -> Self {
        Driver { bits, counter: Cell::new(0) }
    }
}

impl brood::verif::JoinDriver for Driver {
    fn join(&self, rest: &mut dyn FnMut(), task: &mut dyn FnMut()) {
        let id = self.counter.get();
        self.counter.set(id + 1);
        let task_first = id >= 32 || self.bits >> id & 1 == 1;
        let mut side = |s: u8, f: &mut dyn FnMut()| {
            PATH.with(|p| p.borrow_mut().push((id, s)));
            struct Pop;
            impl Drop for Pop {
                fn drop(&mut self) {
                    PATH.with(|p| {
                        p.borrow_mut().pop();
                    });
                }
            }
            let _pop = Pop;
            f();
        };
        if task_first {
            side(1, task);
            side(0, rest);
        } else {
            side(0, rest);
            side(1, task);
        }
    }
}

/// Two executions may overlap in time iff at the first position where their paths differ they sit
/// on the two sides of the *same* fork.
pub fn may_overlap(a: &[(u32, u8)], b: &[(u32, u8)]) -> bool {
    for (x, y) in a.iter().zip(b) {
        if x != y {
            return x.0 == y.0 && x.1 != y.1;
        }
    }
    false
}

// -------------------------------------------------------------------------------------------------
// schedule description and the compiled-case interface
// -------------------------------------------------------------------------------------------------

#[derive(Clone, Debug)]
pub struct TaskMeta {
    pub par: bool,
    /// text of the declared access, for samples
    pub text: &'static str,
}

#[derive(Clone, Debug)]
pub struct SchedMeta {
    pub name: &'static str,
    pub tasks: &'static [TaskMeta],
    /// reference grouping: greedy, in declared order, by declared access (filters ignored)
    pub groups: &'static [&'static [usize]],
    /// pairs (i, j), i < j, whose declared access conflicts
    pub conflicts: &'static [(usize, usize)],
}

pub enum Exec<'a> {
    /// run_schedule under the deterministic driver with the given order bits
    Driven(u32),
    /// run_schedule on a real rayon pool
    Pool(&'a rayon::ThreadPool),
    /// run_system / run_par_system one by one in declared order
    Sequential,
}

pub trait Case {
    fn meta() -> &'static SchedMeta;
    /// Builds fresh task values, executes them on `w` as requested, returns their final states.
    fn execute(w: &mut W, targets: &[Id], exec: &Exec) -> Vec<TaskState>;
}

#[derive(Clone, Debug, Serialize, Deserialize)]
pub struct SchedReplay {
    pub property: String,
    pub engine: String,
    pub schedule: String,
    pub pool_digest: String,
    pub seed: u64,
    pub case: WorldSpec,
    /// order bits of the failing run (None: real rayon pool)
    pub bits: Option<u32>,
    #[serde(default)]
    pub failure: String,
    #[serde(default)]
    pub oracle: String,
}

#[derive(Clone, Debug, Default, Serialize, Deserialize)]
pub struct SchedReport {
    pub schedule: String,
    pub evaluations: u64,
    pub executions: u64,
    pub nontrivial: Vec<u64>,
    pub classes: BTreeMap<String, u64>,
    pub samples: Vec<serde_json::Value>,
    pub failure: Option<SchedReplay>,
}

pub fn world_strategy() -> impl Strategy<Value = WorldSpec> {
    let ent = (
        prop_oneof![4 => Just(15u8), 3 => Just(3u8), 3 => Just(5u8), 2 => Just(1u8), 2 => Just(2u8), 2 => Just(6u8), 2 => Just(12u8), 1 => Just(0u8), 6 => 0u8..16],
        [0u64..1000, 0u64..1000, 0u64..1000, 0u64..1000],
    );
    (prop_oneof![1 => Just(Vec::new()), 12 => prop::collection::vec(ent, 1..12)], [0u64..1000, 0u64..1000, 0u64..1000]).prop_map(|(ents, res)| WorldSpec { ents, res })
}

#[derive(Debug)]
pub struct Violation {
    pub props: &'static [&'static str],
    pub oracle: &'static str,
    pub msg: String,
    pub bits: Option<u32>,
}

pub struct CaseStats {
    pub executions: u64,
    pub overlapped_pairs: u64,
    pub early_starts: u64,
    pub refused_early: u64,
    pub all_matched: bool,
    pub group_of_two: bool,
    pub resource_tasks: usize,
}

/// Run one world content through every order vector (and the real pools) of schedule `S`.
pub fn check_case<S: Case>(spec: &WorldSpec, pools: &[rayon::ThreadPool], only_bits: Option<Option<u32>>) -> (CaseStats, Vec<Violation>) {
    let meta = S::meta();
    let n = meta.tasks.len();
    let mut stats = CaseStats { executions: 0, overlapped_pairs: 0, early_starts: 0, refused_early: 0, all_matched: false, group_of_two: meta.groups.iter().any(|g| g.len() >= 2), resource_tasks: meta.tasks.iter().filter(|t| t.text.contains(" res ")).count() };
    let mut out = Vec::new();
    // reference: declared order, one by one
    let (mut wref, targets) = build_world(spec);
    let ref_states = S::execute(&mut wref, &targets, &Exec::Sequential);
    let ref_world = world_state(&mut wref);
    stats.all_matched = ref_states.iter().all(|s| s.matched > 0);
    let group_of = |t: usize| meta.groups.iter().position(|g| g.contains(&t)).unwrap();
    let compare = |states: &[TaskState], world: &(Vec<(String, [Option<u64>; 4])>, [u64; 3]), bits: Option<u32>, out: &mut Vec<Violation>| {
        if world.1 != ref_world.1 {
            out.push(Violation { props: &["C07", "C15"], oracle: "resource-state", msg: format!("{}: resources after run_schedule are {:?}; after running the tasks one by one in declared order they are {:?} (a write through a system resource view was lost or applied out of order)", meta.name, world.1, ref_world.1), bits });
            return;
        }
        for (i, (s, r)) in states.iter().zip(&ref_states).enumerate() {
            if s.runs != 1 {
                out.push(Violation { props: &["C07"], oracle: "runs-once", msg: format!("task {i} of {} ran {} times", meta.name, s.runs), bits });
                return;
            }
            if s.res_acc != r.res_acc {
                out.push(Violation { props: &["C07", "C15"], oracle: "resource-read", msg: format!("task {i} ({}) of {} read resource values summing to {:#x}; run one by one in declared order it reads {:#x} (a write through another task's resource view was not visible to it, or one made after it was)", meta.tasks[i].text, meta.name, s.res_acc, r.res_acc), bits });
                return;
            }
            if s.acc != r.acc || s.matched != r.matched {
                out.push(Violation { props: &["C07"], oracle: "system-state", msg: format!("task {i} ({}) of {} ends with accumulator {:#x} over {} results; run one by one in declared order it ends with {:#x} over {}", meta.tasks[i].text, meta.name, s.acc, s.matched, r.acc, r.matched), bits });
                return;
            }
        }
        if world != &ref_world {
            let diff = world.0.iter().zip(&ref_world.0).find(|(a, b)| a != b).map(|(a, b)| format!("{a:?} instead of {b:?}")).unwrap_or_else(|| format!("resources {:?} instead of {:?}", world.1, ref_world.1));
            out.push(Violation { props: &["C07"], oracle: "world-state", msg: format!("{}: world after run_schedule differs from the world after running the tasks one by one in declared order: {diff}", meta.name), bits });
        }
    };
    let bit_vectors: Vec<u32> = match only_bits {
        Some(Some(b)) => vec![b],
        Some(None) => vec![],
        None => (0..(1u32 << n.min(6))).collect(),
    };
    for bits in bit_vectors {
        let (mut w, targets) = build_world(spec);
        let driver = Driver::new(bits);
        let _ = &driver;
        let states = S::execute(&mut w, &targets, &Exec::Driven(bits));
        stats.executions += 1;
        let world = world_state(&mut w);
        compare(&states, &world, Some(bits), &mut out);
        // a task started early (during the stage of an earlier reference group) has already run
        // when its own group starts: C12's "may run simultaneously" is asked of two tasks of one
        // group that both ran in their own stage, or that were both started early (they are then
        // forked next to each other as well)
        let early: Vec<bool> = (0..n).map(|j| (0..n).any(|i| group_of(i) < group_of(j) && may_overlap(&states[i].path, &states[j].path))).collect();
        // C08: tasks permitted to overlap must not share an address with a write
        for i in 0..n {
            for j in i + 1..n {
                let overlap = may_overlap(&states[i].path, &states[j].path);
                if overlap {
                    stats.overlapped_pairs += 1;
                    if group_of(i) != group_of(j) {
                        stats.early_starts += 1;
                    }
                    let wi: HashSet<usize> = states[i].accesses.iter().filter(|a| a.1).map(|a| a.0).collect();
                    let ai: HashSet<usize> = states[i].accesses.iter().map(|a| a.0).collect();
                    let hit = states[j].accesses.iter().find(|(addr, write)| wi.contains(addr) || (*write && ai.contains(addr)));
                    if let Some((addr, _)) = hit {
                        out.push(Violation {
                            props: &["C08"],
                            oracle: "overlap-race",
                            msg: format!("{}: tasks {i} ({}) and {j} ({}) are permitted to overlap (fork paths {:?} / {:?}) but both can reach address {addr:#x} and at least one of them writes it", meta.name, meta.tasks[i].text, meta.tasks[j].text, states[i].path, states[j].path),
                            bits: Some(bits),
                        });
                    }
                } else if group_of(i) == group_of(j) && early[i] == early[j] {
                    // C12: same reference group => must be placed where they may run simultaneously
                    out.push(Violation {
                        props: &["C12"],
                        oracle: "needless-serialisation",
                        msg: format!("{}: tasks {i} ({}) and {j} ({}) have no conflicting declared access and are adjacent in one group of the greedy in-order grouping, but the scheduler never lets them overlap (fork paths {:?} / {:?})", meta.name, meta.tasks[i].text, meta.tasks[j].text, states[i].path, states[j].path),
                        bits: Some(bits),
                    });
                } else if group_of(j) == group_of(i) + 1 && meta.conflicts.contains(&(i, j)) {
                    stats.refused_early += 1;
                }
            }
        }
        if !out.is_empty() {
            return (stats, out);
        }
    }
    if only_bits.is_none() || only_bits == Some(None) {
        for pool in pools {
            let (mut w, targets) = build_world(spec);
            let states = S::execute(&mut w, &targets, &Exec::Pool(pool));
            stats.executions += 1;
            let world = world_state(&mut w);
            compare(&states, &world, None, &mut out);
            if !out.is_empty() {
                return (stats, out);
            }
        }
    }
    (stats, out)
}

/// C17, schedule part: a panic injected into the k-th view touched by any system body of a
/// `run_schedule` call must reach the caller (no abort, no hang, not swallowed) and the world must
/// stay usable enough to be queried and dropped. Components here are plain integers, so double
/// drops cannot occur; this part is about propagation through the fork/join machinery.
pub fn check_panics<S: Case>(spec: &WorldSpec, pools: &[rayon::ThreadPool]) -> (u64, u64, Vec<Violation>) {
    use std::panic::{catch_unwind, AssertUnwindSafe};
    let meta = S::meta();
    let n = meta.tasks.len();
    let mut injections = 0u64;
    let mut fired = 0u64;
    let mut out = Vec::new();
    let all = if n >= 32 { u32::MAX } else { (1u32 << n) - 1 };
    let modes: Vec<(Option<u32>, Option<usize>)> = vec![(Some(0), None), (Some(all), None), (None, Some(1)), (None, Some(2))];
    for (bits, pool) in modes {
        let exec = |w: &mut W, targets: &[Id]| match (bits, pool) {
            (Some(b), _) => S::execute(w, targets, &Exec::Driven(b)),
            (_, Some(p)) => S::execute(w, targets, &Exec::Pool(&pools[p.min(pools.len() - 1)])),
            _ => unreachable!(),
        };
        // dry run: how many ticks does the schedule make?
        FUSE.store(-1, Ordering::SeqCst);
        TICKS.store(0, Ordering::SeqCst);
        let (mut w, targets) = build_world(spec);
        let _ = exec(&mut w, &targets);
        let ticks = TICKS.load(Ordering::SeqCst);
        drop(w);
        let positions: Vec<u64> = if ticks <= 16 { (0..ticks).collect() } else { (0..16).map(|i| i * ticks / 16).collect() };
        for k in positions {
            let (mut w, targets) = build_world(spec);
            FIRED.store(false, Ordering::SeqCst);
            FUSE.store(k as i64, Ordering::SeqCst);
            let r = catch_unwind(AssertUnwindSafe(|| exec(&mut w, &targets)));
            FUSE.store(-1, Ordering::SeqCst);
            injections += 1;
            if FIRED.load(Ordering::SeqCst) {
                fired += 1;
                match r {
                    Ok(_) => out.push(Violation { props: &["C17"], oracle: "sched-panic-swallowed", msg: format!("{}: a panic in a system body (tick {k}) did not reach the caller of run_schedule ({})", meta.name, if bits.is_some() { "hook driver" } else { "rayon pool" }), bits }),
                    Err(p) => {
                        if p.downcast_ref::<SchedFuse>().is_none() {
                            let msg = p.downcast_ref::<String>().cloned().or_else(|| p.downcast_ref::<&str>().map(|s| s.to_string())).unwrap_or_default();
                            out.push(Violation { props: &["C17"], oracle: "sched-other-panic", msg: format!("{}: after a panic in a system body (tick {k}) a different panic reached the caller: {msg}", meta.name), bits });
                        }
                    }
                }
            }
            // the world must still answer a query and be droppable
            let r = catch_unwind(AssertUnwindSafe(|| {
                let _ = world_state(&mut w);
                drop(w);
            }));
            if r.is_err() {
                out.push(Violation { props: &["C17"], oracle: "sched-world-unusable", msg: format!("{}: after a panic in a system body (tick {k}) querying or dropping the world panicked", meta.name), bits });
            }
            if !out.is_empty() {
                return (injections, fired, out);
            }
        }
    }
    (injections, fired, out)
}

pub struct RunCfg {
    pub prop: String,
    pub seed: u64,
    pub cases: u32,
    pub pool_digest: String,
}

pub fn nontrivial(prop: &str, s: &CaseStats) -> bool {
    match prop {
        "C07" => s.overlapped_pairs > 0 && s.all_matched,
        "C08" => s.early_starts > 0 || s.refused_early > 0,
        "C12" => s.group_of_two,
        "C15" => s.resource_tasks >= 2 && s.all_matched,
        _ => true,
    }
}

/// Generate `cfg.cases` world contents for schedule `S` and check each of them.
pub fn run_schedule_cases<S: Case>(cfg: &RunCfg, pools: &[rayon::ThreadPool]) -> SchedReport {
    use std::hash::{Hash, Hasher};
    let meta = S::meta();
    let mut hsh = std::collections::hash_map::DefaultHasher::new();
    (cfg.seed, meta.name, &cfg.prop).hash(&mut hsh);
    let s = hsh.finish();
    let mut seed_bytes = [0u8; 32];
    for (i, b) in seed_bytes.iter_mut().enumerate() {
        *b = (s.rotate_left(i as u32 * 5) as u8) ^ (i as u8).wrapping_mul(29);
    }
    let mut runner = TestRunner::new_with_rng(
        PtConfig { cases: cfg.cases, failure_persistence: None, max_shrink_iters: 2000, rng_seed: RngSeed::Fixed(s), ..PtConfig::default() },
        proptest::test_runner::TestRng::from_seed(proptest::test_runner::RngAlgorithm::ChaCha, &seed_bytes),
    );
    let report = RefCell::new(SchedReport { schedule: meta.name.to_string(), ..Default::default() });
    let failed = Cell::new(false);
    let last: RefCell<Option<(String, &'static str, Option<u32>)>> = RefCell::new(None);
    let prop = cfg.prop.as_str();
    let result = runner.run(&world_strategy(), |spec| {
        if prop == "C17" {
            let (inj, fired, violations) = check_panics::<S>(&spec, pools);
            if !failed.get() {
                let mut r = report.borrow_mut();
                r.evaluations += 1;
                r.executions += inj;
                *r.classes.entry("panics_injected".to_string()).or_insert(0) += inj;
                *r.classes.entry("panics_fired_in_a_body".to_string()).or_insert(0) += fired;
                if violations.is_empty() && fired > 0 {
                    let mut h2 = std::collections::hash_map::DefaultHasher::new();
                    (meta.name, serde_json::to_string(&spec).unwrap()).hash(&mut h2);
                    let hv = h2.finish();
                    if !r.nontrivial.contains(&hv) {
                        r.nontrivial.push(hv);
                        if r.samples.len() < 1 {
                            r.samples.push(serde_json::json!({"schedule": meta.name, "tasks": meta.tasks.iter().map(|t| t.text).collect::<Vec<_>>(), "world": spec, "injections": inj}));
                        }
                    }
                }
            }
            return match violations.into_iter().next() {
                Some(v) => {
                    failed.set(true);
                    *last.borrow_mut() = Some((v.msg.clone(), v.oracle, v.bits));
                    Err(TestCaseError::fail(v.msg))
                }
                None => Ok(()),
            };
        }
        let (stats, violations) = check_case::<S>(&spec, pools, None);
        let own = violations.into_iter().find(|v| v.props.contains(&prop));
        if !failed.get() {
            let mut r = report.borrow_mut();
            r.evaluations += 1;
            r.executions += stats.executions;
            let mut add = |k: &str, v: u64| *r.classes.entry(k.to_string()).or_insert(0) += v;
            add("overlapped_task_pairs", stats.overlapped_pairs);
            add("early_starts_accepted", stats.early_starts);
            add("early_start_candidates_refused", stats.refused_early);
            add("cases_where_every_task_matched_an_entity", stats.all_matched as u64);
            add("cases_with_empty_world", spec.ents.is_empty() as u64);
            if own.is_none() && nontrivial(prop, &stats) {
                let mut h2 = std::collections::hash_map::DefaultHasher::new();
                (meta.name, serde_json::to_string(&spec).unwrap()).hash(&mut h2);
                let hv = h2.finish();
                if !r.nontrivial.contains(&hv) {
                    r.nontrivial.push(hv);
                    if r.samples.len() < 2 {
                        r.samples.push(serde_json::json!({"schedule": meta.name, "tasks": meta.tasks.iter().map(|t| t.text).collect::<Vec<_>>(), "world": spec, "orders": "all 2^tasks fork orders + rayon pools 1,2,4,16"}));
                    }
                }
            }
        }
        match own {
            Some(v) => {
                failed.set(true);
                *last.borrow_mut() = Some((v.msg.clone(), v.oracle, v.bits));
                Err(TestCaseError::fail(v.msg))
            }
            None => Ok(()),
        }
    });
    let mut report = report.into_inner();
    if let Err(TestError::Fail(_, spec)) = result {
        let violations = if prop == "C17" { check_panics::<S>(&spec, pools).2 } else { check_case::<S>(&spec, pools, None).1 };
        let v = violations.into_iter().find(|v| v.props.contains(&prop));
        let (msg, oracle, bits) = match v {
            Some(v) => (v.msg, v.oracle, v.bits),
            None => last.into_inner().unwrap_or_default(),
        };
        report.failure = Some(SchedReplay { property: cfg.prop.clone(), engine: "sched".into(), schedule: meta.name.into(), pool_digest: cfg.pool_digest.clone(), seed: cfg.seed, case: spec, bits, failure: msg, oracle: oracle.into() });
    }
    report
}

pub fn make_pools() -> Vec<rayon::ThreadPool> {
    [1usize, 2, 4, 16].iter().map(|n| rayon::ThreadPoolBuilder::new().num_threads(*n).build().unwrap()).collect()
}

pub fn replay_case<S: Case>(r: &SchedReplay, pools: &[rayon::ThreadPool]) -> Option<String> {
    // a pool failure may need several attempts; a driven failure is deterministic
    if r.property == "C17" {
        return check_panics::<S>(&r.case, pools).2.into_iter().next().map(|v| v.msg);
    }
    let tries = if r.bits.is_some() { 1 } else { 50 };
    for _ in 0..tries {
        let (_, violations) = check_case::<S>(&r.case, pools, Some(r.bits));
        if let Some(v) = violations.into_iter().find(|v| v.props.contains(&r.property.as_str())) {
            return Some(v.msg);
        }
    }
    None
}

pub use brood;
pub use rayon;
