//! Keeps the workspace glob schedbins_thorough/* non-empty; thorough tiers generate st00.. here.
