//! Interpreter tier of the C05 check: replays generated histories (sampled natively by
//! `engine sample`, a pure function of the seed) under Miri with the harness oracles off.
//! The interpreter itself is the oracle: out-of-bounds or dangling accesses, reads of
//! uninitialised memory, misaligned accesses, invalid values, mismatched deallocations.
//!
//!   vmiri <cases.json> <shard> <nshards> <progress-file>
//!
//! The progress file always names the case being run, so that the driver can turn an
//! interpreter abort into a replay file.
use vcore::ops::Op;

fn main() {
    let args: Vec<String> = std::env::args().collect();
    if args.get(1).map(|s| s.as_str()) == Some("--version") {
        return; // build probe
    }
    let cases: Vec<(String, Vec<Op>)> = serde_json::from_str(&std::fs::read_to_string(&args[1]).expect("cases")).expect("cases json");
    let shard: usize = args[2].parse().unwrap();
    let nshards: usize = args[3].parse().unwrap();
    let progress = &args[4];
    vcore::runner::install_quiet_panic_hook();
    let mut done = 0usize;
    let mut ops_run = 0usize;
    for (i, (reg, ops)) in cases.iter().enumerate() {
        if i % nshards != shard {
            continue;
        }
        std::fs::write(progress, format!("{{\"running\": {i}, \"done\": {done}, \"ops\": {ops_run}}}")).ok();
        let r = match reg.as_str() {
            "r6" => vcore::runner::run_light::<reg_r6::gen::Rg>(ops),
            "r1" => vcore::runner::run_light::<reg_r1::gen::Rg>(ops),
            other => panic!("registry {other} is not linked into vmiri"),
        };
        match r {
            Ok(n) => {
                done += 1;
                ops_run += n;
            }
            Err(msg) => {
                std::fs::write(progress, format!("{{\"failed\": {i}, \"done\": {done}, \"ops\": {ops_run}, \"message\": {}}}", serde_json::to_string(&msg).unwrap())).ok();
                std::process::exit(1);
            }
        }
    }
    std::fs::write(progress, format!("{{\"finished\": true, \"done\": {done}, \"ops\": {ops_run}}}")).ok();
}
