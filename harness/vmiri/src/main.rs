//! Interpreter tier of the C05 check: replays generated histories (sampled natively by
//! `engine sample`, a pure function of the seed) under Miri with the harness oracles off.
//! The interpreter itself is the oracle: out-of-bounds or dangling accesses, reads of
//! uninitialised memory, misaligned accesses, invalid values, mismatched deallocations.
//!
//!   vmiri <cases.json> <shard> <nshards> <progress-file>
//!
//! The progress file always names the case being run, so that the driver can turn an
//! interpreter abort into a replay file.
use vcore::ops::Op;

fn main() {
    let args: Vec<String> = std::env::args().collect();
    if args.get(1).map(|s| s.as_str()) == Some("--version") {
        return; // build probe
    }
    if args.get(1).map(|s| s.as_str()) == Some("deser") {
        return deser_main(&args[2..]);
    }
    let cases: Vec<(String, Vec<Op>)> = serde_json::from_str(&std::fs::read_to_string(&args[1]).expect("cases")).expect("cases json");
    let shard: usize = args[2].parse().unwrap();
    let nshards: usize = args[3].parse().unwrap();
    let progress = &args[4];
    vcore::runner::install_quiet_panic_hook();
    let mut done = 0usize;
    let mut ops_run = 0usize;
    for (i, (reg, ops)) in cases.iter().enumerate() {
        if i % nshards != shard {
            continue;
        }
        std::fs::write(progress, format!("{{\"running\": {i}, \"done\": {done}, \"ops\": {ops_run}}}")).ok();
        let r = match reg.as_str() {
            "r6" => vcore::runner::run_light::<reg_r6::gen::Rg>(ops),
            "r1" => vcore::runner::run_light::<reg_r1::gen::Rg>(ops),
            other => panic!("registry {other} is not linked into vmiri"),
        };
        match r {
            Ok(n) => {
                done += 1;
                ops_run += n;
            }
            Err(msg) => {
                std::fs::write(progress, format!("{{\"failed\": {i}, \"done\": {done}, \"ops\": {ops_run}, \"message\": {}}}", serde_json::to_string(&msg).unwrap())).ok();
                std::process::exit(1);
            }
        }
    }
    std::fs::write(progress, format!("{{\"finished\": true, \"done\": {done}, \"ops\": {ops_run}}}")).ok();
}

/// `vmiri deser <cases.json> <shard> <nshards> <progress-file>`: edited serializations (C11). The
/// case runner's own oracles stay on (outcome Err or a world that passes the audit); the follow-up
/// history runs with the per-step oracles off.
fn deser_main(args: &[String]) {
    let cases: Vec<(String, vcore::deser::DeserCase)> = serde_json::from_str(&std::fs::read_to_string(&args[0]).expect("cases")).expect("cases json");
    let shard: usize = args[1].parse().unwrap();
    let nshards: usize = args[2].parse().unwrap();
    let progress = &args[3];
    vcore::runner::install_quiet_panic_hook();
    vcore::interp::LIGHT.store(true, std::sync::atomic::Ordering::Relaxed);
    let mut done = 0usize;
    let mut ops_run = 0usize;
    for (i, (reg, case)) in cases.iter().enumerate() {
        if i % nshards != shard {
            continue;
        }
        std::fs::write(progress, format!("{{\"running\": {i}, \"done\": {done}, \"ops\": {ops_run}}}")).ok();
        let out = match reg.as_str() {
            "r6" => vcore::deser::run_deser_case::<reg_r6::gen::Rg>(case, "C11", 0),
            other => panic!("registry {other} is not linked into vmiri"),
        };
        match out.fail {
            Some(f) if f.props.contains(&"C11") => {
                let msg = format!("[{}] {}", f.oracle, f.msg);
                std::fs::write(progress, format!("{{\"failed\": {i}, \"done\": {done}, \"ops\": {ops_run}, \"message\": {}}}", serde_json::to_string(&msg).unwrap())).ok();
                std::process::exit(1);
            }
            _ => {
                done += 1;
                ops_run += case.base.len() + out.stats.follow_ops;
            }
        }
    }
    std::fs::write(progress, format!("{{\"finished\": true, \"done\": {done}, \"ops\": {ops_run}}}")).ok();
}
