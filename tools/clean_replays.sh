#!/bin/sh
# remove only hash-named replay files (12 hex digits), never the named regression replays
cd "$(dirname "$0")/../replays" && ls | grep -E '^C[0-9]{2}-[0-9a-f]{12}\.json$' | xargs -r rm -f
