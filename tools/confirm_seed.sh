#!/bin/bash
# usage: confirm_seed.sh <worktree> <k>   -- confirm a seeded change: suite passes with it, demo fails with it, demo passes without it
WT=$1; K=$2
cd $WT || exit 2
git checkout -q -- src 2>/dev/null
git checkout -q --detach main 2>/dev/null
cp _out/demo$K.rs tests/demo$K.rs
echo "== pristine demo"
cargo test --offline --features serde,rayon --test demo$K 2>&1 | grep -E "^test result|error(\[|:)" | head -3
git apply _out/patch$K.diff || { echo "PATCH DOES NOT APPLY"; rm -f tests/demo$K.rs; exit 1; }
echo "== suite with patch"
cargo test --offline --lib --tests 2>&1 | grep -E "^test result|error(\[|:)" | grep -v demo | head -4
cargo check --offline --features serde,rayon 2>&1 | grep -E "^error" | head -3
echo "== demo with patch"
cargo test --offline --features serde,rayon --test demo$K 2>&1 | grep -E "^test result|error(\[|:)" | head -3
git checkout -q -- src
rm -f tests/demo$K.rs
