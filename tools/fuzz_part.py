"""Coverage-guided part of the thorough tiers (libFuzzer + AddressSanitizer through cargo-fuzz).

Used by ./verif for C05 (target `ops`: the history interpreter with every engine oracle inside the
target) and C11 (target `deser`: edited serializations). A campaign is bounded by -runs, never by
wall clock; a watchdog expiry is reported as inconclusive by the caller.
"""
import base64
import glob
import json
import os
import re
import shutil
import subprocess

ROOT = os.path.dirname(os.path.dirname(os.path.abspath(__file__)))
HARNESS = os.path.join(ROOT, 'harness')
FUZZ = os.path.join(HARNESS, 'fuzz')
TRIPLE = 'x86_64-unknown-linux-gnu'


def env():
    e = dict(os.environ, CARGO_NET_OFFLINE='true')
    e['RUSTFLAGS'] = '--cfg brood_verif -Awarnings'
    # leaks are decided by the tracking allocator inside the oracles; the harness itself forgets worlds of
    # failed base histories on purpose, so LeakSanitizer's exit-time report is switched off
    e['ASAN_OPTIONS'] = 'detect_leaks=0'
    return e


def build(target):
    lock = os.path.join(FUZZ, 'Cargo.lock')
    if not os.path.exists(lock):
        shutil.copy('/repo/Cargo.lock', lock)
    r = subprocess.run(['cargo', '+nightly', 'fuzz', 'build', '--fuzz-dir', 'fuzz', target], cwd=HARNESS, env=env(),
                       stdout=subprocess.PIPE, stderr=subprocess.STDOUT, text=True)
    if r.returncode != 0:
        return None, r.stdout[-4000:]
    return os.path.join(FUZZ, 'target', TRIPLE, 'release', target), ''


def run(target, seed, runs_per_job, jobs=16, max_len=2048, timeout=7200):
    """returns dict(executed, corpus_before, corpus_after, crashes=[paths], log_tail, build_error)"""
    binary, err = build(target)
    if binary is None:
        return dict(build_error=err)
    work = os.path.join(HARNESS, 'target', 'fuzz-work', target)
    shutil.rmtree(work, ignore_errors=True)
    corpus = os.path.join(work, 'corpus')
    arts = os.path.join(work, 'artifacts')
    os.makedirs(corpus)
    os.makedirs(arts)
    seeds = os.path.join(ROOT, 'corpus', target)
    n_seed = 0
    if os.path.isdir(seeds):
        for f in os.listdir(seeds):
            shutil.copy(os.path.join(seeds, f), os.path.join(corpus, f))
            n_seed += 1
    cmd = [binary, corpus, '-max_len=%d' % max_len, '-len_control=0', '-seed=%d' % (seed if seed else 1), '-runs=%d' % runs_per_job,
           '-detect_leaks=0', '-jobs=%d' % jobs, '-workers=%d' % jobs, '-artifact_prefix=%s/' % arts, '-print_final_stats=1', '-verbosity=0']
    try:
        subprocess.run(cmd, cwd=work, env=env(), stdout=subprocess.PIPE, stderr=subprocess.STDOUT, text=True, timeout=timeout)
        timed_out = False
    except subprocess.TimeoutExpired:
        timed_out = True
    executed = 0
    tails = []
    for log in sorted(glob.glob(os.path.join(work, 'fuzz-*.log'))):
        text = open(log, errors='replace').read()
        m = re.findall(r'stat::number_of_executed_units:\s*(\d+)', text)
        if m:
            executed += int(m[-1])
        tails.append(text[-6000:])
    crashes = sorted(glob.glob(os.path.join(arts, 'crash-*')) + glob.glob(os.path.join(arts, 'oom-*')) + glob.glob(os.path.join(arts, 'timeout-*')))
    return dict(executed=executed, corpus_before=n_seed, corpus_after=len(os.listdir(corpus)), crashes=crashes, logs=tails, timed_out=timed_out, work=work)


def describe_crash(result):
    """(kind, message, case_json_or_None, artifact_b64)"""
    art = result['crashes'][0]
    data = open(art, 'rb').read()
    kind = os.path.basename(art).split('-')[0]
    msg = ''
    case = None
    for text in result['logs']:
        m = re.search(r"panicked at [^\n]*\n(oracle [^\n]*)\n(?:ops|case) = ([^\n]*)", text)
        if m:
            msg = m.group(1)
            try:
                case = json.loads(m.group(2))
            except ValueError:
                case = None
            break
        m = re.search(r'(ERROR: AddressSanitizer: [^\n]*)', text)
        if m:
            msg = m.group(1)
            break
    return kind, msg, case, base64.b64encode(data).decode()


def replay_artifact(target, b64):
    """re-run the fuzz binary on a saved artifact; returns True if it still crashes"""
    binary, err = build(target)
    if binary is None:
        return None
    work = os.path.join(HARNESS, 'target', 'fuzz-work', target + '-replay')
    os.makedirs(work, exist_ok=True)
    path = os.path.join(work, 'artifact')
    open(path, 'wb').write(base64.b64decode(b64))
    r = subprocess.run([binary, path, '-detect_leaks=0'], cwd=work, env=env(), stdout=subprocess.PIPE, stderr=subprocess.STDOUT, text=True)
    return r.returncode != 0
