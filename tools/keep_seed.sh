#!/bin/bash
# usage: keep_seed.sh <Cxx> <k> <name>  -- copy a confirmed seeded change from /tmp/seed/<Cxx>/_out into /verif/seeded/<name>/
C=$1; K=$2; NAME=$3
D=/verif/seeded/$NAME
mkdir -p $D
cp /tmp/seed/$C/_out/patch$K.diff $D/patch.diff
cp /tmp/seed/$C/_out/demo$K.rs $D/demo.rs
cp /tmp/seed/$C/_out/notes$K.md $D/notes.md
