# checks served by engines other than the stateful engine: id -> (level, technique, text, engine)
CHECKS = {
    'C07': ('exploration', 'differential property testing of generated schedules under an exhaustively enumerated fork/join order (hook driver) and on real rayon pools',
            'Every compiled schedule is run on generated world contents for every assignment of task-first/continuation-first at the scheduler fork points and on pools of 1,2,4,16 threads, and compared with running its tasks one by one in declared order on an identically built world (world, resources, system state, run counters). Task bodies are order-sensitive by construction (v = v*31 + tag).', 'sched'),
    'C08': ('exploration', 'property testing with a happens-before oracle over the recorded fork/join tree (all interleavings of a run at once)',
            'Each task records address and mode of everything it could reach; two tasks whose recorded fork/join positions permit overlap must not share an address with a write. The oracle reasons over the structure, so one run covers all interleavings of that run.', 'sched'),
    'C12': ('exploration', 'property testing of schedule structure against a reference greedy grouping; termination observed under a watchdog',
            'For every pair of tasks that the generator-side greedy in-order grouping by declared access puts in one group (and that ran in their own stage) the recorded fork/join relation must permit overlap; every run_schedule call must return under the deterministic driver and on pools of 1,2,4,16 threads (hang = inconclusive, exit 2).', 'sched'),
}
