"""Interpreter part of the C05 and C11 thorough tiers: generated histories (C05) and edited
serializations (C11, kind='deser': `engine sample-deser`, half accepted and half rejected inputs; the
case runner's outcome oracle stays on, the follow-up history runs with the per-step oracles off)
replayed under Miri.

The histories are sampled natively by `engine sample` (same proptest strategy as the engine, a pure
function of the seed; only passing, non-trivial ones are kept), then harness/vmiri replays them in
16 shards under `cargo +nightly miri run` with the harness oracles off: the interpreter decides, with
byte precision, what the allocator oracle and AddressSanitizer can only approximate (accesses outside a
live allocation or past its end inside the allocator's slack, use after free, double free, deallocation
with another layout, reads of never-written memory, misaligned accesses, invalid values, leaks).
Aliasing-model (Stacked Borrows) reports are not part of property C05: a shard that ends with one is
rerun with that model off and the report is recorded as an observation only.
A shard that exceeds its watchdog makes the part inconclusive, never a violation.
"""
import json
import os
import re
import shutil
import subprocess

ROOT = os.path.dirname(os.path.dirname(os.path.abspath(__file__)))
HARNESS = os.path.join(ROOT, 'harness')
WORK = os.path.join(HARNESS, 'target', 'miri-work')
BASE_FLAGS = '-Zmiri-disable-isolation'


def env(flags):
    e = dict(os.environ, CARGO_NET_OFFLINE='true')
    e['MIRIFLAGS'] = flags
    e.pop('RUSTFLAGS', None)  # harness/.cargo/config.toml carries --cfg brood_verif
    return e


def sample(seed, n, max_ops, kind='ops'):
    os.makedirs(WORK, exist_ok=True)
    cases = os.path.join(WORK, 'cases.json')
    engine = os.path.join(HARNESS, 'target', 'release', 'engine')
    if kind == 'deser':
        cmd = [engine, 'sample-deser', '--seed', str(seed), '--n', str(n), '--out', cases]
    else:
        cmd = [engine, 'sample', '--prop', 'C05', '--seed', str(seed), '--n', str(n), '--max-ops', str(max_ops), '--out', cases]
    r = subprocess.run(cmd, cwd=HARNESS, stdout=subprocess.PIPE, stderr=subprocess.STDOUT, text=True)
    if r.returncode != 0:
        return None, r.stdout[-3000:]
    return cases, ''


def build():
    r = subprocess.run(['cargo', '+nightly', 'miri', 'run', '-q', '-p', 'vmiri', '--', '--version'], cwd=HARNESS, env=env(BASE_FLAGS),
                       stdout=subprocess.PIPE, stderr=subprocess.STDOUT, text=True)
    # `--version` makes vmiri exit at once (status 0); anything else here is a build problem
    return r.returncode == 0, r.stdout[-4000:]


def classify(text):
    """(kind, headline) of an interpreter report"""
    m = re.search(r'error: (Undefined Behavior: [^\n]*|memory leaked[^\n]*|the evaluated program leaked memory[^\n]*|unsupported operation: [^\n]*|abnormal termination: [^\n]*|[^\n]*)', text)
    head = m.group(1) if m else ''
    low = text.lower()
    if 'stacked borrows' in low or 'tree borrows' in low:
        return 'aliasing-model', head
    if head.startswith('unsupported operation'):
        return 'unsupported', head
    if 'leaked' in head:
        return 'leak', head
    if head.startswith('Undefined Behavior') or head.startswith('abnormal termination'):
        return 'ub', head
    return 'other', head


def run_shards(cases, nshards, timeout, flags, only=None, kind='ops'):
    procs = []
    for i in range(nshards):
        if only is not None and i not in only:
            continue
        prog = os.path.join(WORK, 'progress%d.json' % i)
        if os.path.exists(prog):
            os.remove(prog)
        log = open(os.path.join(WORK, 'shard%d.log' % i), 'w')
        p = subprocess.Popen(['cargo', '+nightly', 'miri', 'run', '-q', '-p', 'vmiri', '--'] + (['deser'] if kind == 'deser' else []) + [cases, str(i), str(nshards), prog], cwd=HARNESS,
                             env=env(flags), stdout=log, stderr=subprocess.STDOUT)
        procs.append((i, p, log, prog))
    out = {}
    for i, p, log, prog in procs:
        timed_out = False
        try:
            p.wait(timeout=timeout)
        except subprocess.TimeoutExpired:
            p.kill()
            p.wait()
            timed_out = True
        log.close()
        try:
            progress = json.load(open(prog))
        except (OSError, ValueError):
            progress = {}
        out[i] = dict(rc=p.returncode, timed_out=timed_out, progress=progress, log=open(os.path.join(WORK, 'shard%d.log' % i), errors='replace').read()[-6000:])
    return out


def flags_for(kind):
    # edited inputs: values leaked by a failed deserialization are property C04's business (recorded
    # findings), so the interpreter's exit-time leak report is off for that kind
    return BASE_FLAGS + (' -Zmiri-ignore-leaks' if kind == 'deser' else '')


def run(seed, n=96, max_ops=24, nshards=16, timeout=3600, kind='ops'):
    """dict(cases, done, ops, failure=None|dict(kind, headline, registry, case, log), observations=[...], inconclusive=None|str, build_error=None|str)"""
    shutil.rmtree(WORK, ignore_errors=True)
    cases, err = sample(seed, n, max_ops, kind)
    if cases is None:
        return dict(build_error='engine sample failed: ' + err)
    ok, text = build()
    if not ok:
        return dict(build_error=text)
    all_cases = json.load(open(cases))
    res = run_shards(cases, nshards, timeout, flags_for(kind), kind=kind)
    observations = []
    rerun = []
    for i, r in sorted(res.items()):
        if r['rc'] != 0 and not r['timed_out'] and 'failed' not in r['progress']:
            kind, head = classify(r['log'])
            if kind == 'aliasing-model':
                observations.append({'shard': i, 'case_index': r['progress'].get('running'), 'report': head})
                rerun.append(i)
    if rerun:
        res.update(run_shards(cases, nshards, timeout, flags_for(kind) + ' -Zmiri-disable-stacked-borrows', only=set(rerun), kind=kind))
    done = sum(r['progress'].get('done', 0) for r in res.values())
    ops = sum(r['progress'].get('ops', 0) for r in res.values())
    result = dict(cases=len(all_cases), done=done, ops=ops, failure=None, observations=observations, inconclusive=None, build_error=None,
                  samples=[{'registry': c[0], 'case': c[1]} for c in all_cases[:2]])
    for i, r in sorted(res.items()):
        if r['timed_out']:
            result['inconclusive'] = 'shard %d exceeded its watchdog of %d s' % (i, timeout)
            continue
        if r['rc'] == 0:
            continue
        idx = r['progress'].get('failed', r['progress'].get('running'))
        if 'failed' in r['progress']:
            kind, head = 'panic', r['progress'].get('message', '')
        else:
            kind, head = classify(r['log'])
        if kind in ('unsupported', 'other') or idx is None:
            result['inconclusive'] = 'shard %d: the interpreter stopped with "%s"' % (i, head or r['log'][-300:])
            continue
        reg, case_ops = all_cases[idx]
        result['failure'] = dict(kind=kind, headline=head, registry=reg, case=case_ops, log=r['log'][-3000:])
        break
    return result


def replay(registry, case_ops, timeout=3600, kind='ops'):
    """run one history / edited input under the interpreter; returns (failed: bool|None, text)"""
    os.makedirs(WORK, exist_ok=True)
    cases = os.path.join(WORK, 'replay-case.json')
    json.dump([[registry, case_ops]], open(cases, 'w'))
    res = run_shards(cases, 1, timeout, flags_for(kind), kind=kind)
    r = res[0]
    if r['timed_out']:
        return None, 'watchdog'
    if r['rc'] == 0:
        return False, ''
    if 'failed' in r['progress']:
        return True, r['progress'].get('message', '')
    kind, head = classify(r['log'])
    if kind == 'aliasing-model':
        r = run_shards(cases, 1, timeout, flags_for(kind) + ' -Zmiri-disable-stacked-borrows', kind=kind)[0]
        if r['rc'] == 0:
            return False, 'aliasing-model report only: ' + head
        kind, head = classify(r['log'])
    if kind in ('unsupported', 'other'):
        return None, head
    return True, head
