#!/usr/bin/env python3
"""Writes /verif/MANIFEST.json from the table below (kept in one place so it stays valid)."""
import json
import subprocess

CHECKS = {
    'C01': ('exploration', 'model-based stateful property testing (proptest histories vs reference map)',
            'Generated histories over six registries are applied to the real World and to a plain reference map; snapshot, len and is_empty are compared after every operation and failures shrink to a minimal op list. Exploration is the right level: the property quantifies over all histories, shapes and orders, which only a generator can sample broadly; no proof is claimed.'),
    'C02': ('exploration', 'model-based stateful property testing with identifier probes after every step',
            'Every identifier returned must be new for the lineage; after every operation every issued identifier is resolved through contains, World::entry and Entries::entry and must resolve iff live and to its own values; batches are sized around the free-list length to force every kind of slot reuse.'),
    'C03': ('exploration', 'property-based differential testing of a generated query pool against a reference predicate',
            'A seeded generator emits well-typed query types (views x filters x entry/sub-view triples) together with their predicate as data; results over generated world states are compared with the reference map (set, values, None-patterns, writes, size_hint) through four consumption modes and three access paths.'),
    'C04': ('exploration', 'stateful property testing with a drop ledger (individually identified values)',
            'Every value carries a serial registered in a thread-local ledger; after every operation the live set must equal what the reference maps hold, values leaving a world must be dropped in that very step (also checked independently of any snapshot), copies must be fresh, ragged batches must be refused with every value dropped, and nothing may be alive after the last world is dropped. Second part: for edited serializations (the C11 generator) a failed deserialization must have dropped every value it constructed; recorded error paths are excluded by construction.'),
    'C05': ('exploration', 'stateful property testing under a checking global allocator with self-validating payloads',
            'Histories biased to growth/shrink patterns (with parallel queries and parallel systems on two of the eight registries) run under a tracking allocator (layout check on free/realloc, canaries, poison + quarantine, leak accounting of library allocations) with payloads that validate type tag, serial and derived data on every read; a fatal signal under a safe history is reported as a violation with the running case as replay. The thorough tier adds a coverage-guided libFuzzer + AddressSanitizer campaign over the same interpreter and oracles, and replays a seeded sample of generated histories under the Miri interpreter (out-of-bounds, dangling, never-written, misaligned accesses; wrong-layout frees; leaks).'),
    'C06': ('exploration', 'round-trip property testing in five encodings with lock-step differential execution',
            'Worlds reached by generated histories are serialized and deserialized (JSON; token streams human-readable/compact x struct/seq), must compare equal and hold the same contents, and the deserialized twin then executes the rest of the history in lock step with the original (same identifiers, same snapshots), including chained round trips.'),
    'C10': ('exploration', 'stateful property testing over several worlds with clone / clone_from',
            'Clone and clone_from between three world slots at random points; equality, content equality, fresh values, and after every later operation the untouched worlds must be unchanged while all other oracles keep running on both sides.'),
    'C13': ('exploration', 'stateful property testing with a structural audit of internal bookkeeping after every step',
            'After every operation of every history the read-only hook dump is audited: rows <-> active slots bijection, len, free list == inactive slots without duplicates, one table per component set, lookup tables consistent.'),
    'C15': ('exploration', 'stateful property testing of resources interleaved with entity histories',
            '65 compiled resource-view lists (subsets x type-checking orders x mutability of a 4-resource list) through view_resources, query(..).resources and run_system, interleaved with arbitrary entity operations, clones and round trips; all resources must keep value and identity. Second part: after run_schedule (every fork order under the hook driver, rayon pools) the resources must equal those of running the tasks one by one.'),
    'C16': ('exploration', 'property-based testing of equality laws over pairs of generated worlds',
            'Pairs of worlds reached along different paths are compared: reflexive, symmetric, equal implies same contents; clones and round trips compare equal.'),
}

NOT_YET = {
    'C07': 'schedule differential check under construction (DESIGN.md section 4, C07)',
    'C08': 'schedule race check under construction (DESIGN.md section 4, C08)',
    'C12': 'schedule grouping check under construction (DESIGN.md section 4, C12)',
}


def main():
    import importlib.util, os
    here = os.path.dirname(os.path.abspath(__file__))
    extra = os.path.join(here, 'manifest_extra.py')
    checks = dict(CHECKS)
    not_yet = dict(NOT_YET)
    engines_of = {p: 'engine' for p in CHECKS}
    if os.path.exists(extra):
        spec = importlib.util.spec_from_file_location('manifest_extra', extra)
        mod = importlib.util.module_from_spec(spec)
        spec.loader.exec_module(mod)
        for p, (level, tech, text, engine) in mod.CHECKS.items():
            checks[p] = (level, tech, text)
            engines_of[p] = engine
            not_yet.pop(p, None)
    commits = subprocess.run(['git', '-C', '/repo', 'log', '--format=%h %s'], stdout=subprocess.PIPE, text=True).stdout.splitlines()
    hooks = [c.split()[0] for c in commits if c.split(' ', 1)[1].startswith('verif hooks')]
    m = {
        'version': 1,
        'setup_cmd': './verif build',
        'hooks': {
            'guard': '--cfg brood_verif',
            'enable': 'rustflags = ["--cfg", "brood_verif"] in /verif/harness/.cargo/config.toml; brood is a path dependency (/repo) of every harness crate with features serde,rayon, so every check rebuilds from the current working tree',
            'baseline_off_cmd': 'cd /repo && cargo test --workspace --no-fail-fast --offline',
            'source_commits': hooks,
            'add_only': True,
        },
        'engines': [
            {'name': 'engine', 'path': 'harness/engine', 'serves_properties': sorted(p for p, e in engines_of.items() if e == 'engine'),
             'kind_free_text': 'model-based stateful property-testing engine (proptest TestRunner on 16 workers; generated type pools per registry in harness/regs/*)'},
            {'name': 'progs', 'path': 'gen/gen_progs.py + harness/progs', 'serves_properties': sorted(p for p, e in engines_of.items() if e == 'progs'),
             'kind_free_text': 'generated programs with expected compiler verdict; cargo check --message-format=json maps diagnostics to functions'},
            {'name': 'c18', 'path': 'gen/gen_c18.py + harness/c18', 'serves_properties': sorted(p for p, e in engines_of.items() if e == 'c18'),
             'kind_free_text': 'generated registry types x constructors (exhaustive), batch length tuples (exhaustive + proptest)'},
            {'name': 'sched', 'path': 'harness/sched + harness/schedbins/*', 'serves_properties': sorted(p for p, e in engines_of.items() if e == 'sched'),
             'kind_free_text': 'generated schedule pools compiled as many small binaries; proptest world contents; deterministic fork/join driver through the cfg(brood_verif) hook; real rayon pools'},
        ],
        'checks': [],
        'not_applicable': [{'property_id': p, 'reason': r} for p, r in sorted(not_yet.items())],
        'notes': 'One command per property: ./verif <id> <tier>. Exit 0 = held, 1 = VIOLATION line printed, 2 = infrastructure problem (never a violation). Known findings live in known_findings.json; seeded changes used for sensitivity testing in seeded/.',
    }
    seen = set()
    for p in sorted(checks):
        level, tech, text = checks[p]
        m['checks'].append({
            'property_id': p,
            'quick_cmd': './verif %s quick' % p,
            'thorough_cmd': './verif %s thorough' % p,
            'evidence_file': '/verif/evidence/%s.json' % p,
            'replay_cmd_template': './verif replay {path}',
            'engine': engines_of[p],
            'level_claimed': {'category': level, 'text': text, 'design_ref': 'DESIGN.md section 4 (%s)' % p},
            'level_note': 'finite type pools (six registries, six component kinds, compiled shapes/orders/queries); the reference model and the oracles of the harness are trusted; random search never establishes absence',
            'technique': tech,
        })
        seen.add(engines_of[p])
    json.dump(m, open('/verif/MANIFEST.json', 'w'), indent=1)


if __name__ == '__main__':
    main()
