#!/bin/bash
# Seconds-long regression tier: replays every saved input of /verif/replays against the current /repo tree.
# A replay of a repaired defect must print "not reproduced"; the open C14 finding is expected to reproduce.
cd "$(dirname "$0")/.."
rc=0
for f in replays/*.json; do
  out=$(./verif replay "$f" 2>&1 | grep -v WARNING | tail -1)
  echo "$(basename "$f"): $out"
  case "$f" in
    replays/C14-entries-entry-query-outlives-borrow.json) ;;
    *) echo "$out" | grep -q "REPRODUCED" && rc=1 ;;
  esac
done
exit $rc
