#!/bin/bash
# Runs every quick check with several seeds on the (unchanged) tree; prints anything that is not a clean pass.
cd "$(dirname "$0")/.."
for s in ${SEEDS:-2 3 4 5 6}; do
  for p in C01 C02 C03 C04 C05 C06 C07 C08 C09 C10 C11 C12 C13 C14 C15 C16 C17 C18; do
    out=$(VERIF_SEED=$s ./verif $p quick 2>&1); rc=$?
    if [ $rc -ne 0 ]; then echo "seed=$s $p rc=$rc"; echo "$out" | grep -v KNOWN-FINDING | tail -5; fi
  done
  echo "seed $s done"
done
