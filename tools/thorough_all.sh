#!/bin/bash
# Runs the thorough tier of a list of properties once (smoke test of the thorough commands).
cd "$(dirname "$0")/.."
for p in ${PROPS:-C07 C14 C18 C17 C11 C01 C09}; do
  start=$(date +%s)
  out=$(VERIF_SEED=${VERIF_SEED:-2} VERIF_FUZZ_RUNS=${VERIF_FUZZ_RUNS:-5000} ./verif $p thorough 2>&1); rc=$?
  echo "$p rc=$rc $(( $(date +%s) - start ))s: $(echo "$out" | grep -v KNOWN-FINDING | tail -2 | tr '\n' ' ' | cut -c1-300)"
done
