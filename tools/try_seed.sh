#!/bin/bash
# usage: try_seed.sh <seeded-name> <tier> <prop> [prop...]  -- apply the seeded change to /repo, run the checks, undo it
NAME=$1; TIER=$2; shift 2
D=/verif/seeded/$NAME
if ! git -C /repo diff --quiet; then echo "/repo has uncommitted changes"; exit 2; fi
git -C /repo apply $D/patch.diff || { echo "PATCH DOES NOT APPLY"; exit 2; }
for P in "$@"; do
  echo "--- $NAME vs $P $TIER"
  (cd /verif && VERIF_SEED=${VERIF_SEED:-1} ./verif $P $TIER 2>&1 | grep -E "VIOLATION|failure:|no violation|KNOWN|BUILD|CRASH|INCONCLUSIVE" | cut -c1-400)
done
git -C /repo checkout -- .
# NOTE: this rewrites /verif/evidence/<id>.json with the evidence of the run against the seeded tree:
# re-run the quick checks on the clean tree before committing evidence.
